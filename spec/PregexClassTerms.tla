--------------------------- MODULE PregexClassTerms ---------------------------
(***************************************************************************)
(* EvalC(term): the intended outcome of a whole class-algebra term by      *)
(* recursion (arguments first, left to right; the first that raises         *)
(* decides), for seeded random class programs over the whole of Unicode.    *)
(* The state has the shape of a PregexClass state, so the same judge        *)
(* replays it.  cterms.json: a sequence of class terms.                     *)
(***************************************************************************)
EXTENDS PregexClass, Json, IOUtils, TLCExt

CTerms == JsonDeserialize("cterms.json")

\* outcome of evaluating a term as an OPERAND: [o |-> outcome, x |-> operand record, dc |-> shorthand flags]
Op(o, x, dc) == [o |-> o, x |-> x, dc |-> dc]
DcOfV(v) == Shorthands(v.iv) \cup (IF v.glob THEN {"w", "d"} ELSE {})

RECURSIVE EvalC(_)
EvalC(t) ==
  LET k == t[1] IN
  CASE k = "CFrom"    -> LET o == EFrom(t[2], Tail(t[3])) IN Op(o, OCls(o.v), IF o.ok THEN DcOfV(o.v) ELSE {})
    [] k = "CBetween" -> LET o == EBetween(t[2], t[3], t[4]) IN Op(o, OCls(o.v), IF o.ok THEN DcOfV(o.v) ELSE {})
    [] k = "CNamed"   -> LET v == CV(t[2], NamedIv(t[3])) IN Op(OkO(v), OCls(v), DcOfV(v))
    [] k = "CWord"    -> LET v == IF t[3] THEN GlobV(t[2]) ELSE CV(t[2], WordC) IN Op(OkO(v), OCls(v), DcOfV(v))
    [] k = "CAny"     -> Op(OkO(AnyV), OCls(AnyV), {})
    [] k = "CChar"    -> Op(OkO(Single(t[2])), OCh(t[2]), {})
    [] k = "CTok"     -> Op(OkO(Single(TokCP(t[2]))), OCh(TokCP(t[2])), {})
    [] k = "CBad"     -> Op(OkO(AnyV), OBad, {})
    [] k \in {"COr", "CSub"} ->
         LET a == EvalC(t[2])
             b == EvalC(t[3])
         IN IF ~a.o.ok THEN a
            ELSE IF ~b.o.ok THEN [b EXCEPT !.o.ex = @ \cup a.o.ex]
            ELSE IF a.x.k # "cv" /\ b.x.k # "cv" THEN Op([ok |-> TRUE, v |-> AnyV, ex |-> {"*"}], OBad, {})    \* no class operand: plain Python
            ELSE LET o == BinOutcome(IF k = "COr" THEN "or" ELSE "sub", a.x, b.x)
                 IN Op([o EXCEPT !.ex = @ \cup a.o.ex \cup b.o.ex], OCls(o.v), a.dc \cup b.dc \cup (IF o.ok THEN DcOfV(o.v) ELSE {}))
    [] k = "CInv" ->
         LET a == EvalC(t[2]) IN
         IF ~a.o.ok THEN a
         ELSE IF a.x.k # "cv" THEN Op([ok |-> TRUE, v |-> AnyV, ex |-> {"*"}], OBad, {})
         ELSE LET o == EInv(a.x.c) IN Op([o EXCEPT !.ex = @ \cup a.o.ex], OCls(o.v), a.dc)

VARIABLE l
tvars == <<cur, d, res, l>>
StateOfC(i) ==
  LET t == CTerms[i]
      e == EvalC(t)
      top == e.x.k = "cv" /\ "*" \notin e.o.ex
  IN [cur |-> [t |-> t, v |-> e.o.v],
      res |-> IF top THEN Expect(e.o, e.dc) ELSE [Expect(OkO(AnyV), {}) EXCEPT !.ex = {"*"}, !.ok = TRUE]]
TInit == l = 1 /\ d = 1 /\ cur = StateOfC(1).cur /\ res = StateOfC(1).res
TNext == l < Len(CTerms) /\ l' = l + 1 /\ UNCHANGED d /\ cur' = StateOfC(l + 1).cur /\ res' = StateOfC(l + 1).res
TSpec == TInit /\ [][TNext]_tvars
AllConsumed == TLCGet("stats").diameter = Len(CTerms)
=============================================================================
