------------------------------- MODULE MC_Api -------------------------------
(***************************************************************************)
(* Model-level check of the statements of C11-C14 on the API functions:    *)
(* every text over a 2-letter alphabet up to MaxT characters, every         *)
(* well-formed match list with up to 2 matches and NG groups.               *)
(* The state is (text, match list); TLC builds match lists incrementally.   *)
(***************************************************************************)
EXTENDS PregexApi, RunCfg

VARIABLES t, ML
vars == <<t, ML>>

Texts == UNION { [1..n -> {97, 98}] : n \in 0..MaxT }
Spans(tt, from) == { <<s, e>> : s \in from..Len(tt), e \in from..Len(tt) } 
GroupSpans(tt) == {<<-1, -1>>} \cup { sp \in Spans(tt, 0) : sp[1] <= sp[2] }

Init == t \in Texts /\ ML = <<>>

Next == /\ Len(ML) < 2
        /\ UNCHANGED t
        /\ \E sp \in Spans(t, IF ML = <<>> THEN 0 ELSE ML[Len(ML)].e) :
             /\ sp[1] <= sp[2]
             /\ (ML # <<>> => (sp[2] > ML[Len(ML)].e \/ sp[1] > ML[Len(ML)].s))
             /\ \E g \in [1..NG -> GroupSpans(t)] :
                  ML' = Append(ML, [s |-> sp[1], e |-> sp[2], g |-> g])

Spec == Init /\ [][Next]_vars

WF == WellFormedML(t, ML, NG)
C11_Slice == SliceIsMatch(t, ML)
C12_Slice == \A incl \in BOOLEAN, rel \in BOOLEAN : SliceIdentity(t, ML, incl, rel)
C12_OnePerMatch == \A incl \in BOOLEAN : OnePerMatch(t, ML, incl)
C12_IncludeEmpty == IncludeEmptyFilter(t, ML)
C13_Split == SplitReconstruct(t, ML)
C13_SplitCapture == \A incl \in BOOLEAN : SplitCaptureReconstruct(t, ML, incl)
C13_ReplaceAll == \A repl \in {<<>>, <<120>>, <<97, 98>>} : ReplaceAllEqualsJoin(t, ML, repl)
C13_ReplaceK == \A k \in 0..3 : ReplaceFirstK(t, ML, <<120>>, k)
C14_Window == \A nl \in 0..2, nr \in {0, 1, 5} : WindowContainsMatch(t, ML, nl, nr)
=============================================================================
