------------------------------- MODULE MC_Sem -------------------------------
(***************************************************************************)
(* Model-level theorems that need the reference semantics (PregexSem):      *)
(* statements of C01, C04, C05 and C08 about the INTENDED values, checked   *)
(* by TLC over small operands, bounds and texts.  The semantics itself is   *)
(* calibrated against CPython re in the C02 check.                          *)
(* RunCfg: SemWin = <<c1, c2>>, Bounds (set of <<n, m>>, m = -1 unbounded)  *)
(***************************************************************************)
EXTENDS PregexEval, PregexSem, RunCfg

c1 == SemWin[1]
c2 == SemWin[2]

\* operands with an unambiguous witness w: a^k is matched exactly by w^k
Operands == { [a |-> Lit(<<c1>>), w |-> <<c1>>], [a |-> Lit(<<c1, c2>>), w |-> <<c1, c2>>],
              [a |-> Cls(FALSE, << <<c1, c1>> >>), w |-> <<c1>>], [a |-> Grp(Lit(<<c1, c2>>), FALSE), w |-> <<c1, c2>>],
              [a |-> Cap(Lit(<<c2>>), ""), w |-> <<c2>>], [a |-> Cat(Lit(<<c1>>), Lit(<<c2>>)), w |-> <<c1, c2>>],
              [a |-> Rep(Lit(<<c1>>), 2, 2, TRUE), w |-> <<c1, c1>>] }
RECURSIVE Pow(_, _)
Pow(w, k) == IF k = 0 THEN <<>> ELSE w \o Pow(w, k - 1)

VARIABLES o, b, g
vars == <<o, b, g>>
Init == o \in Operands /\ b \in Bounds /\ g \in BOOLEAN
Next == FALSE /\ UNCHANGED vars
Spec == Init /\ [][Next]_vars

Q == Rep(o.a, b[1], b[2], g)
MaxK == 5
\* C04: k back-to-back repetitions are matched exactly for the k in the stated range
BoundsExact == \A k \in 0..MaxK : Full(Q, Pow(o.w, k)) = (b[1] <= k /\ (b[2] = Inf \/ k <= b[2]))
\* C04: greedy prefers the most repetitions, lazy the fewest
GreedyLazyPreference ==
  b[1] <= MaxK =>
    MatchEnd(Q, Pow(o.w, MaxK)) = Len(o.w) * (IF g THEN (IF b[2] = Inf \/ b[2] > MaxK THEN MaxK ELSE b[2]) ELSE b[1])
\* C04: all equivalent spellings denote the same outcome
SpellingsAgree ==
  LET x == o.a  n == b[1]  m == b[2] IN
  /\ EAtMost(x, NoneA, g) = EIndefinite(x, g)
  /\ EAtLeastAtMost(x, IntA(n), NoneA, g) = EAtLeast(x, IntA(n), g)
  /\ (m # Inf => EAtLeastAtMost(x, IntA(n), IntA(m), g).v = RepOutcome(x, n, m, g).v)
  /\ EAtLeastAtMost(x, IntA(n), IntA(n), g) = EExactly(x, IntA(n))
  /\ EAtLeastAtMost(x, IntA(0), IntA(1), g) = EOptional(x, g)
  /\ EAtMost(x, IntA(1), g) = EOptional(x, g)
  /\ EAtLeast(x, IntA(0), g) = EIndefinite(x, g) /\ EAtLeast(x, IntA(1), g) = EOneOrMore(x, g)
  /\ EMul(x, IntA(n)) = EExactly(x, IntA(n))
  /\ EExactly(x, IntA(0)).v = Eps /\ EExactly(x, IntA(1)).v = x
\* C04: invalid bounds are rejected, never turned into a pattern
BadBoundsRejected ==
  LET x == o.a IN
  \A bad \in {BoolA, FloatA, StrA} :
     /\ ~EExactly(x, bad).ok /\ ~EAtLeast(x, bad, g).ok /\ ~EAtMost(x, bad, g).ok
     /\ ~EAtLeastAtMost(x, bad, IntA(1), g).ok /\ ~EAtLeastAtMost(x, IntA(1), bad, g).ok
     /\ ~EExactly(x, IntA(-1)).ok /\ ~EAtLeastAtMost(x, IntA(2), IntA(1), g).ok /\ ~EExactly(x, NoneA).ok

\* C01: a literal exactly-matches its own text and no other (all texts over the window up to length 3)
Texts == UNION { [1..n -> {c1, c2}] : n \in 0..3 }
LiteralDenotation == \A s \in Texts \ {<<>>}, t \in Texts : Full(Lit(s), t) = (t = s)
\* C08: grouping and capturing never change which text is matched
SpansOf(e, t) == [i \in 1..Len(Find(e, t)) |-> <<Find(e, t)[i][1], Find(e, t)[i][2]>>]
GroupingPreservesLanguage ==
  \A t \in Texts : /\ SpansOf(Cap(Q, "n"), t) = SpansOf(Q, t) /\ SpansOf(Grp(Q, FALSE), t) = SpansOf(Q, t)
                   /\ SpansOf(CaptureV(GroupV(Q, FALSE), "n"), t) = SpansOf(Q, t)
\* C05: the empty pattern is neutral
EmptyNeutralSem ==
  \A t \in Texts : /\ Find(EConcat(Q, Eps).v, t) = Find(Q, t) /\ Find(EConcat(Eps, Q).v, t) = Find(Q, t)
                   /\ Find(EEnclose(Q, Eps).v, t) = Find(Q, t) /\ Find(EEither(Q, Eps).v, t) = Find(Q, t)
=============================================================================
