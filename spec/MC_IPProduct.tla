----------------------------- MODULE MC_IPProduct -----------------------------
(***************************************************************************)
(* Language equality of the emitted extensible IPv4 / IPv6 pattern with     *)
(* the reference automaton, for ALL strings: exploration of the product of  *)
(* the subset construction of the NFA extracted from the emitted pattern    *)
(* (nfa.json, written by harness/ipproduct.py from /repo's current tree)    *)
(* with IPRef.  The alphabet is one representative per atom of the          *)
(* partition of all code points induced by every character set of the NFA   *)
(* and of the reference, so the exploration is complete for every text.     *)
(* `w` is the BFS witness of a product state; it is hidden from the state   *)
(* identity by the VIEW.                                                    *)
(***************************************************************************)
EXTENDS IPRef, Json, IOUtils, TLCExt

N == JsonDeserialize("nfa.json")
\* N.delta[q + 1][a] = closed set (as a sequence) of NFA states reachable from q on symbol number a
\* N.syms = representative code points, N.start = closed start set, N.final = accepting state, N.kind = "v4" | "v6"
ToSet(s) == {s[i] : i \in 1..Len(s)}

VARIABLES S, r, w
vars == <<S, r, w>>
View == <<S, r>>

Init == /\ S = ToSet(N.start)
        /\ r = IF N.kind = "v4" THEN V4Init ELSE V6Init
        /\ w = <<>>

Next == \E a \in 1..Len(N.syms) :
          LET S2 == UNION { ToSet(N.delta[q + 1][a]) : q \in S }
              r2 == RefStep(r, N.syms[a])
          IN /\ (S2 # {} \/ r2.k # "dead")          \* stop where both sides are dead
             /\ S' = S2 /\ r' = r2 /\ w' = Append(w, N.syms[a])

Spec == Init /\ [][Next]_vars

NfaAccepts == N.final \in S
\* the verdict (checked by the harness on every dumped state, and by TLC as an invariant)
SameLanguage == NfaAccepts = RefAccept(r)
=============================================================================
