------------------------------ MODULE PregexImpl ------------------------------
(***************************************************************************)
(* Layer I: the library's own design for automatic grouping, transcribed   *)
(* at the level of values (not of pattern text):                           *)
(*                                                                         *)
(*   TypeOf(v)      the eight-way _Type classification as a function of     *)
(*                  structure (pre.py: __infer_type)                        *)
(*   Rule(ty)       the table __groupping_rules: (on_concat, on_quantify,   *)
(*                  on_assertion)                                           *)
(*   Emit(v)        the text the library's f-strings produce for v, as a    *)
(*                  sequence of code points (escape set of __escape,        *)
(*                  quantifier suffixes, group openers, anchors)            *)
(*                                                                         *)
(* Refinement theorem PrecSafe: with this table, on every parent/child edge *)
(* of the emitted tree the child's precedence level - after the table has   *)
(* decided whether to wrap it - is at least what the parent position         *)
(* requires, i.e. no operator can bind to a fragment of an operand (the      *)
(* design-level statement of C02).  TLC checks it on every spine state.      *)
(* Layer I is never a verdict oracle: Emit(v) = str(p) and TypeOf(v) =       *)
(* _get_type() are only measured ("drift") by the replay, because a          *)
(* refactoring may change the text without changing behaviour.               *)
(***************************************************************************)
EXTENDS PregexCore

TypeOf(v) ==
  CASE v.k = "eps"  -> "Empty"
    [] v.k = "lit"  -> IF Len(v.s) = 1 THEN "Token" ELSE "Other"
    [] v.k \in {"any", "cls"} -> "Class"
    [] v.k = "cat"  -> "Other"
    [] v.k = "alt"  -> "Alternation"
    [] v.k = "rep"  -> "Quantifier"
    [] v.k \in {"cap", "grp", "cond"} -> "Group"
    [] v.k \in {"anch", "look", "wb", "nwb"} -> "Assertion"
    [] v.k = "bref" -> IF v.nm = "" THEN "Token" ELSE "Group"

\* (on_concat, on_quantify, on_assertion)
Rule(ty) ==
  CASE ty = "Alternation" -> <<TRUE, TRUE, TRUE>>
    [] ty = "Assertion"   -> <<FALSE, TRUE, FALSE>>
    [] ty = "Class"       -> <<FALSE, FALSE, FALSE>>
    [] ty = "Empty"       -> <<FALSE, FALSE, FALSE>>
    [] ty = "Group"       -> <<FALSE, FALSE, FALSE>>
    [] ty = "Other"       -> <<FALSE, TRUE, FALSE>>
    [] ty = "Quantifier"  -> <<FALSE, TRUE, FALSE>>
    [] ty = "Token"       -> <<FALSE, FALSE, FALSE>>
Ctx == [concat |-> 1, quantify |-> 2, assertion |-> 3]
Wraps(v, ctx) == Rule(TypeOf(v))[Ctx[ctx]]

(* ------------------------------ Emit ----------------------------------- *)
EscSet == {92, 94, 36, 40, 41, 91, 93, 123, 125, 63, 43, 42, 46, 124, 47}     \* \ ^ $ ( ) [ ] { } ? + * . | /
RECURSIVE EscText(_)
EscText(s) == IF s = <<>> THEN <<>>
              ELSE (IF Head(s) \in EscSet THEN <<92, Head(s)>> ELSE <<Head(s)>>) \o EscText(Tail(s))
RECURSIVE Digits(_)
Digits(n) == IF n < 10 THEN <<48 + n>> ELSE Digits(n \div 10) \o <<48 + (n % 10)>>
\* group names used by the specification instances (TLC cannot take strings apart)
NameSeq(nm) == CASE nm = "n" -> <<110>> [] nm = "m" -> <<109>> [] nm = "k" -> <<107>> [] nm = "g" -> <<103>> [] nm = "j" -> <<106>>
                 [] nm = "nn" -> <<110, 110>> [] nm = "x" -> <<120>> [] nm = "y" -> <<121>> [] OTHER -> <<63>>

\* quantifier suffix exactly as pre.py spells it
Suffix(n, m, g) ==
  LET lazy == IF g THEN <<>> ELSE <<63>> IN
  IF n = 0 /\ m = 1 THEN <<63>> \o lazy
  ELSE IF n = 0 /\ m = Inf THEN <<42>> \o lazy
  ELSE IF n = 1 /\ m = Inf THEN <<43>> \o lazy
  ELSE IF n = m THEN <<123>> \o Digits(n) \o <<125>>
  ELSE IF m = Inf THEN <<123>> \o Digits(n) \o <<44, 125>> \o lazy
  ELSE IF n = 0 THEN <<123, 44>> \o Digits(m) \o <<125>> \o lazy
  ELSE <<123>> \o Digits(n) \o <<44>> \o Digits(m) \o <<125>> \o lazy

\* class text: the escape set of classes.py; a one-character class is printed as that (escaped) character
ClsEscSet == {92, 94, 91, 93, 45, 47}                                        \* \ ^ [ ] - /
ClsEsc(c) == IF c \in ClsEscSet THEN <<92, c>> ELSE <<c>>
RECURSIVE ClsBody(_)
ClsBody(iv) == IF iv = <<>> THEN <<>>
               ELSE LET r == Head(iv) IN
                    (IF r[1] = r[2] THEN ClsEsc(r[1]) ELSE ClsEsc(r[1]) \o <<45>> \o ClsEsc(r[2])) \o ClsBody(Tail(iv))
ClsText(v) == IF ~v.neg /\ Len(v.iv) = 1 /\ v.iv[1][1] = v.iv[1][2]
              THEN (LET c == v.iv[1][1] IN IF c \in ClsEscSet THEN <<92, c>> ELSE EscText(<<c>>))
              ELSE <<91>> \o (IF v.neg THEN <<94>> ELSE <<>>) \o ClsBody(v.iv) \o <<93>>

RECURSIVE Emit(_)
G(v, ctx) == IF Wraps(v, ctx) THEN <<40, 63, 58>> \o Emit(v) \o <<41>> ELSE Emit(v)
Emit(v) ==
  CASE v.k = "eps"  -> <<>>
    [] v.k = "lit"  -> EscText(v.s)
    [] v.k = "any"  -> <<46>>
    [] v.k = "cls"  -> ClsText(v)                               \* shape only: order of elements and shorthands (\d, \w) are classes.py's business
    [] v.k = "cat"  -> G(v.a, "concat") \o G(v.b, "concat")
    [] v.k = "alt"  -> Emit(v.a) \o <<124>> \o Emit(v.b)
    [] v.k = "rep"  -> G(v.a, "quantify") \o Suffix(v.n, v.m, v.g)
    [] v.k = "cap"  -> (IF v.nm = "" THEN <<40>> ELSE <<40, 63, 80, 60>> \o NameSeq(v.nm) \o <<62>>) \o Emit(v.a) \o <<41>>
    [] v.k = "grp"  -> (IF v.ci THEN <<40, 63, 105, 58>> ELSE <<40, 63, 58>>) \o Emit(v.a) \o <<41>>
    [] v.k = "anch" -> (CASE v.kd = "bos" -> <<92, 65>> \o G(v.a, "assertion")
                          [] v.kd = "eos" -> G(v.a, "assertion") \o <<92, 90>>
                          [] v.kd = "bol" -> <<94>> \o G(v.a, "assertion")
                          [] v.kd = "eol" -> G(v.a, "assertion") \o <<36>>)
    [] v.k = "wb"   -> <<92, 98>>
    [] v.k = "nwb"  -> <<92, 66>>
    [] v.k = "look" -> LET m  == G(v.a, "assertion")
                           la == <<40, 63>> \o (IF v.pos THEN <<61>> ELSE <<33>>) \o Emit(v.x) \o <<41>>
                           lb == <<40, 63, 60>> \o (IF v.pos THEN <<61>> ELSE <<33>>) \o Emit(v.x) \o <<41>>
                       IN (CASE v.dir = "ahead" -> m \o la [] v.dir = "behind" -> lb \o m [] v.dir = "both" -> lb \o m \o la)
    [] v.k = "bref" -> IF v.nm = "" THEN <<92>> \o Digits(v.num) ELSE <<40, 63, 80, 61>> \o NameSeq(v.nm) \o <<41>>
    [] v.k = "cond" -> <<40, 63, 40>> \o NameSeq(v.nm) \o <<41>> \o G(v.a, "assertion") \o
                       (IF v.hasb THEN <<124>> \o G(v.b, "assertion") ELSE <<>>) \o <<41>>
HasClass(v) ==
  LET RECURSIVE H(_)
      H(x) == CASE x.k = "cls" -> TRUE
                [] Leaf(x) -> FALSE
                [] x.k \in {"cat", "alt", "cond"} -> H(x.a) \/ H(x.b)
                [] x.k \in {"rep", "cap", "grp", "anch"} -> H(x.a)
                [] x.k = "look" -> H(x.a) \/ H(x.x)
  IN H(v)

(* ---------------------------- PrecSafe --------------------------------- *)
\* level of an operand as it appears in the emitted text of its parent
EmittedLevel(v, ctx) == IF Wraps(v, ctx) THEN 3 ELSE Level(v)
\* an empty operand never appears (layer E removes it); a one-character literal, class, group, boundary is an atom
RECURSIVE PrecSafe(_)
PrecSafe(v) ==
  CASE Leaf(v) -> TRUE
    [] v.k = "cat"  -> EmittedLevel(v.a, "concat") >= 1 /\ EmittedLevel(v.b, "concat") >= 1 /\ PrecSafe(v.a) /\ PrecSafe(v.b)
    [] v.k = "alt"  -> PrecSafe(v.a) /\ PrecSafe(v.b)
    [] v.k = "rep"  -> EmittedLevel(v.a, "quantify") >= 3 /\ PrecSafe(v.a)
    [] v.k \in {"cap", "grp"} -> PrecSafe(v.a)
    [] v.k = "anch" -> (IsEmpty(v.a) \/ EmittedLevel(v.a, "assertion") >= 1) /\ PrecSafe(v.a)
    [] v.k = "look" -> (IsEmpty(v.a) \/ EmittedLevel(v.a, "assertion") >= 1) /\ PrecSafe(v.a) /\ PrecSafe(v.x)
    [] v.k = "cond" -> EmittedLevel(v.a, "assertion") >= 1 /\ (v.hasb => EmittedLevel(v.b, "assertion") >= 1)
                       /\ PrecSafe(v.a) /\ PrecSafe(v.b)
=============================================================================
