------------------------------ MODULE PregexEval ------------------------------
(***************************************************************************)
(* Layer E: the INTENDED outcome of every builder call, written from the   *)
(* documentation (docstrings of pre.py, operators.py, quantifiers.py,      *)
(* groups.py, assertions.py), not from the code.                           *)
(*                                                                         *)
(* An outcome is [ok, v, ex]: ok = "returning a pattern that means v is    *)
(* allowed", ex = the set of exception names that are allowed.  Almost     *)
(* everywhere exactly one of the two is non-empty; the few deliberately    *)
(* unspecified points (DESIGN section 4) have both.                        *)
(*                                                                         *)
(* Arguments: pattern operands are core values (a str argument s is        *)
(* FromStr(s)) or Bad(why); integer arguments are [t |-> "int", i |-> n] | *)
(* [t |-> "none"] | [t |-> "bool"] | [t |-> "float"] | [t |-> "str"];      *)
(* names are [t |-> "none"] | [t |-> "name", s |-> str] |                  *)
(* [t |-> "badname"] | [t |-> "badtype"].                                  *)
(***************************************************************************)
EXTENDS PregexCore

TypeEx   == "InvalidArgumentTypeException"
ValueEx  == "InvalidArgumentValueException"
RepeatEx == "CannotBeRepeatedException"
EmptyNegEx == "EmptyNegativeAssertionException"
WidthEx  == "NonFixedWidthPatternException"
ArgsEx   == "NotEnoughArgumentsException"
NameEx   == "InvalidCapturingGroupNameException"

OkO(v)        == [ok |-> TRUE,  v |-> v,   ex |-> {}]
RaiseO(e)     == [ok |-> FALSE, v |-> Eps, ex |-> {e}]
RaiseAny(es)  == [ok |-> FALSE, v |-> Eps, ex |-> es]
OkOrRaise(v, e) == [ok |-> TRUE, v |-> v,  ex |-> {e}]

IntA(n)  == [t |-> "int", i |-> n]
NoneA    == [t |-> "none"]
BoolA    == [t |-> "bool"]
FloatA   == [t |-> "float"]
StrA     == [t |-> "str"]
NameA(s) == [t |-> "name", s |-> s]
BadNameA == [t |-> "badname"]
BadTypeA == [t |-> "badtype"]

IsInt(a)  == a.t = "int"
IsNone(a) == a.t = "none"

(* ---------------------------- operators ------------------------------- *)
EConcat(x, y) ==
  IF IsBad(x) \/ IsBad(y) THEN RaiseO(TypeEx)
  ELSE IF IsEmpty(y) THEN OkO(x) ELSE IF IsEmpty(x) THEN OkO(y) ELSE OkO(Cat(x, y))

\* an empty pattern as a LATER alternative is dropped; as the FIRST alternative
\* the documentation and the pinned tests disagree: both readings allowed
EitherUnspecified(x, y) == IsEmpty(x) /\ ~IsEmpty(y)
EEither(x, y) ==
  IF IsBad(x) \/ IsBad(y) THEN RaiseO(TypeEx)
  ELSE IF IsEmpty(y) THEN OkO(x) ELSE OkO(Alt(x, y))

EEnclose(x, y) ==
  IF IsBad(x) \/ IsBad(y) THEN RaiseO(TypeEx)
  ELSE IF IsEmpty(y) THEN OkO(x) ELSE IF IsEmpty(x) THEN OkO(Cat(y, y)) ELSE OkO(Cat(y, Cat(x, y)))

(* ---------------------------- quantifiers ------------------------------ *)
\* repeatability rule of C09: MUST raise on a direct anchor / positive
\* lookaround application, MUST accept when none is inside, else either
RepeatCheck(x, v) ==
  IF DirectAssertion(x) THEN RaiseO(RepeatEx)
  ELSE IF HasAnchorOrPosLook(x) THEN OkOrRaise(v, RepeatEx)
  ELSE OkO(v)

\* n, m validated naturals (m = Inf allowed)
RepOutcome(x, n, m, g) ==
  IF IsEmpty(x) THEN OkO(x)
  ELSE IF n = 0 /\ m = 0 THEN OkO(Eps)
  ELSE IF n = 1 /\ m = 1 THEN OkO(x)
  ELSE IF m = Inf \/ m > 1 THEN RepeatCheck(x, Rep(x, n, m, IF n = m THEN TRUE ELSE g))
  ELSE OkO(Rep(x, n, m, g))

EOptional(x, g)   == IF IsBad(x) THEN RaiseO(TypeEx) ELSE RepOutcome(x, 0, 1, g)
EIndefinite(x, g) == IF IsBad(x) THEN RaiseO(TypeEx) ELSE RepOutcome(x, 0, Inf, g)
EOneOrMore(x, g)  == IF IsBad(x) THEN RaiseO(TypeEx) ELSE RepOutcome(x, 1, Inf, g)

EExactly(x, n) ==
  IF IsBad(x) THEN RaiseO(TypeEx)
  ELSE IF ~IsInt(n) THEN RaiseO(TypeEx)
  ELSE IF n.i < 0 THEN RaiseO(ValueEx)
  ELSE RepOutcome(x, n.i, n.i, TRUE)

EAtLeast(x, n, g) ==
  IF IsBad(x) THEN RaiseO(TypeEx)
  ELSE IF ~IsInt(n) THEN RaiseO(TypeEx)
  ELSE IF n.i < 0 THEN RaiseO(ValueEx)
  ELSE RepOutcome(x, n.i, Inf, g)

EAtMost(x, n, g) ==
  IF IsBad(x) THEN RaiseO(TypeEx)
  ELSE IF IsNone(n) THEN RepOutcome(x, 0, Inf, g)
  ELSE IF ~IsInt(n) THEN RaiseO(TypeEx)
  ELSE IF n.i < 0 THEN RaiseO(ValueEx)
  ELSE RepOutcome(x, 0, n.i, g)

EAtLeastAtMost(x, n, m, g) ==
  IF IsBad(x) THEN RaiseO(TypeEx)
  ELSE LET nType  == ~IsInt(n)
           mType  == ~IsInt(m) /\ ~IsNone(m)
           nValue == IsInt(n) /\ n.i < 0
           mValue == IsInt(m) /\ m.i < 0
           order  == IsInt(n) /\ IsInt(m) /\ m.i < n.i
           errs   == (IF nType \/ mType THEN {TypeEx} ELSE {}) \cup
                     (IF nValue \/ mValue \/ order THEN {ValueEx} ELSE {})
       IN IF errs # {} THEN RaiseAny(errs)
          ELSE RepOutcome(x, n.i, IF IsNone(m) THEN Inf ELSE m.i, g)

\* p * n and n * p mean Exactly(p, n)
EMul(x, n) == EExactly(x, n)

(* ------------------------------ groups --------------------------------- *)
NameErr(nm) == IF nm.t = "badtype" THEN {TypeEx} ELSE IF nm.t = "badname" THEN {NameEx} ELSE {}
NameStr(nm) == IF nm.t = "name" THEN nm.s ELSE ""

CaptureV(x, s) ==
  IF IsEmpty(x) THEN x
  ELSE IF x.k = "grp" /\ ~x.ci THEN Cap(x.a, s)
  ELSE IF x.k = "cap" THEN Cap(x.a, IF s = "" THEN x.nm ELSE s)
  ELSE Cap(x, s)
ECapture(x, nm) ==
  IF IsBad(x) THEN RaiseAny({TypeEx} \cup NameErr(nm))
  ELSE IF NameErr(nm) # {} THEN RaiseAny(NameErr(nm))
  ELSE OkO(CaptureV(x, NameStr(nm)))

\* Group(Capture(p), is_case_insensitive=TRUE) is unspecified (not generated)
GroupUnspecified(x, ci) == x.k = "cap" /\ ci
GroupV(x, ci) ==
  IF IsEmpty(x) THEN x
  ELSE IF x.k = "cap" THEN Grp(x.a, FALSE)
  ELSE IF x.k = "grp" THEN Grp(x.a, ci)
  ELSE Grp(x, ci)
EGroup(x, ci) == IF IsBad(x) THEN RaiseO(TypeEx) ELSE OkO(GroupV(x, ci))

\* ref: [t |-> "int", i |-> n] | [t |-> "name", s |-> str] | bad kinds
EBackreference(r) ==
  IF r.t = "int" THEN
       (IF r.i < 1 \/ r.i > 99 THEN RaiseO(ValueEx)
        ELSE IF r.i > 10 THEN OkOrRaise(Bref(r.i, ""), ValueEx)   \* docs say 10, code says 99
        ELSE OkO(Bref(r.i, "")))
  ELSE IF r.t = "name" THEN OkO(Bref(0, r.s))
  ELSE IF r.t = "badname" THEN RaiseO(NameEx)
  ELSE RaiseO(TypeEx)

EConditional(nm, a, b, hasb) ==
  IF NameErr(nm) # {} \/ nm.t = "none" THEN
       RaiseAny((IF nm.t = "none" THEN {TypeEx} ELSE NameErr(nm)) \cup
                (IF IsBad(a) \/ (hasb /\ IsBad(b)) THEN {TypeEx} ELSE {}))
  ELSE IF IsBad(a) \/ (hasb /\ IsBad(b)) THEN RaiseO(TypeEx)
  ELSE OkO(Cond(nm.s, a, IF hasb THEN b ELSE Eps, hasb))

(* ---------------------------- assertions ------------------------------- *)
EAnchor(kd, x) == IF IsBad(x) THEN RaiseO(TypeEx) ELSE OkO(Anch(kd, x))

\* one lookaround step: match operand x, one assertion operand y
ELook(dir, pos, x, y) ==
  IF IsBad(x) \/ IsBad(y) THEN RaiseO(TypeEx)
  ELSE IF IsEmpty(y) THEN (IF pos THEN OkO(x) ELSE RaiseO(EmptyNegEx))
  ELSE IF dir # "ahead" /\ ~WKnown(y) THEN OkOrRaise(Look(dir, pos, x, y), WidthEx)
  ELSE IF dir # "ahead" /\ ~FixedWidth(y) THEN RaiseO(WidthEx)
  ELSE OkO(Look(dir, pos, x, y))

\* class form: FollowedBy(match, a1, ..., an) nests left to right; fewer than
\* one assertion raises NotEnoughArgumentsException
RECURSIVE ELookFold(_, _, _, _, _)
ELookFold(dir, pos, acc, ys, i) ==
  IF i > Len(ys) \/ ~acc.ok THEN acc
  ELSE LET nx == ELook(dir, pos, acc.v, ys[i]) IN
       ELookFold(dir, pos, [nx EXCEPT !.ex = @ \cup acc.ex], ys, i + 1)
ELookN(dir, pos, x, ys) ==
  IF Len(ys) = 0 THEN RaiseO(ArgsEx)
  ELSE IF IsBad(x) THEN RaiseO(TypeEx)
  ELSE ELookFold(dir, pos, OkO(x), ys, 1)

\* left folds of the class forms Concat(...), Either(...), Enclose(p, e1, ...)
RECURSIVE EFold(_, _, _, _)
EFold(op, acc, ys, i) ==
  IF i > Len(ys) \/ ~acc.ok THEN acc
  ELSE EFold(op, (CASE op = "Concat"  -> EConcat(acc.v, ys[i])
                    [] op = "Either"  -> EEither(acc.v, ys[i])
                    [] op = "Enclose" -> EEnclose(acc.v, ys[i])), ys, i + 1)
EOperatorN(op, xs) ==
  IF Len(xs) = 0 THEN OkO(Eps)
  ELSE IF IsBad(xs[1]) THEN RaiseO(TypeEx)
  ELSE EFold(op, OkO(xs[1]), xs, 2)
=============================================================================
