------------------------------ MODULE TraceApi ------------------------------
(***************************************************************************)
(* Trace validation of observer calls recorded from the real library.      *)
(* Every event carries the subject text, the match list that `re` finds    *)
(* for the emitted pattern (computed by the harness independently of the   *)
(* library call), the call's parameters and the library's result.  The     *)
(* event is accepted iff the result equals the PregexApi function of       *)
(* (text, ML, names, FM, params) - or the documented exception.            *)
(* Verdicts are total: a rejected event is reported and the trace position *)
(* still advances.                                                         *)
(***************************************************************************)
EXTENDS PregexApi, Json, IOUtils, TLCExt

Tr == JsonDeserialize("trace.json")

TypeEx  == "InvalidArgumentTypeException"
ValueEx == "InvalidArgumentValueException"

\* parameter kinds for integers: [k |-> "int", v |-> n] | [k |-> "bool"] | [k |-> "float"] | [k |-> "str"] | [k |-> "none"]
BadInt(a) == a.k # "int"
ExpectedExc(ev) ==
  CASE ev.m = "replace" -> (IF BadInt(ev.p.count) THEN "unspecified" ELSE IF ev.p.count.v < 0 THEN ValueEx ELSE "")
    [] ev.m = "get_matches_with_context" ->
         (IF BadInt(ev.p.nl) \/ BadInt(ev.p.nr) THEN TypeEx
          ELSE IF ev.p.nl.v < 0 \/ ev.p.nr.v < 0 THEN ValueEx ELSE "")
    [] OTHER -> ""

Expected(ev) ==
  CASE ev.m = "has_match"                 -> HasMatch(ev.ML)
    [] ev.m = "is_exact_match"            -> IsExactMatch(ev.FM)
    [] ev.m = "get_matches"               -> GetMatches(ev.t, ev.ML)
    [] ev.m = "get_matches_and_pos"       -> GetMatchesAndPos(ev.t, ev.ML)
    [] ev.m = "get_matches_with_context"  -> WithContext(ev.t, ev.ML, ev.p.nl.v, ev.p.nr.v)
    [] ev.m = "get_captures"              -> GetCaptures(ev.t, ev.ML, ev.p.incl)
    [] ev.m = "get_captures_and_pos"      -> GetCapturesAndPos(ev.t, ev.ML, ev.p.incl, ev.p.rel)
    [] ev.m = "get_named_captures"        -> GetNamedCaptures(ev.t, ev.ML, ev.names, ev.p.incl)
    [] ev.m = "get_named_captures_and_pos" -> GetNamedCapturesAndPos(ev.t, ev.ML, ev.names, ev.p.incl, ev.p.rel)
    [] ev.m = "split_by_match"            -> SplitByMatch(ev.t, ev.ML)
    [] ev.m = "split_by_capture"          -> SplitByCapture(ev.t, ev.ML, ev.p.incl)
    [] ev.m = "replace"                   -> ReplaceK(ev.t, ev.ML, ev.p.repl, ev.p.count.v)

Specified(ev) == ev.m = "split_by_capture" => SplitByCaptureDefined(ev.t, ev.ML, ev.p.incl)

Accept(ev) ==
  IF ~ev.shape THEN FALSE
  ELSE IF ExpectedExc(ev) = "unspecified" THEN TRUE
  ELSE IF ExpectedExc(ev) # "" THEN ev.exc = ExpectedExc(ev)
  ELSE IF ev.exc # "" THEN FALSE
  ELSE IF ~Specified(ev) THEN TRUE
  ELSE Expected(ev) = ev.r

VARIABLE l
Init == l = 1
Next == /\ l <= Len(Tr)
        /\ (IF Accept(Tr[l]) THEN TRUE ELSE PrintT(<<"REJECT", Tr[l].tid>>))
        /\ l' = l + 1
Spec == Init /\ [][Next]_l
Consumed == TLCGet("stats").diameter - 1 = Len(Tr)
=============================================================================
