------------------------------ MODULE PregexCore ------------------------------
(***************************************************************************)
(* Core values: what a pregex expression MEANS.  A value is a regex AST    *)
(* over code points (text = Seq(Nat)); nothing here depends on how the     *)
(* library prints, escapes or groups a pattern.                            *)
(*                                                                         *)
(*   eps | lit(s) | any | cls(neg, iv) | cat(a,b) | alt(a,b)               *)
(*   rep(a,n,m,g)  (m = Inf for unbounded)                                 *)
(*   cap(a,nm) (nm = "" unnamed) | grp(a,ci)                               *)
(*   anch(kd,a) kd in {bos,eos,bol,eol} | wb | nwb                         *)
(*   look(dir,pos,a,x) dir in {ahead,behind,both}                          *)
(*   bref(num,nm) | cond(nm,a,b,hasb)                                      *)
(*   bad(why)    -- an argument that is not a pattern at all               *)
(***************************************************************************)
EXTENDS Naturals, Integers, Sequences, FiniteSets, TLC

Inf == -1

Eps            == [k |-> "eps"]
Lit(s)         == [k |-> "lit", s |-> s]
AnyC           == [k |-> "any"]
Cls(neg, iv)   == [k |-> "cls", neg |-> neg, iv |-> iv]
Cat(a, b)      == [k |-> "cat", a |-> a, b |-> b]
Alt(a, b)      == [k |-> "alt", a |-> a, b |-> b]
Rep(a, n, m, g) == [k |-> "rep", a |-> a, n |-> n, m |-> m, g |-> g]
Cap(a, nm)     == [k |-> "cap", a |-> a, nm |-> nm]
Grp(a, ci)     == [k |-> "grp", a |-> a, ci |-> ci]
Anch(kd, a)    == [k |-> "anch", kd |-> kd, a |-> a]
Wb             == [k |-> "wb"]
Nwb            == [k |-> "nwb"]
Look(dir, pos, a, x) == [k |-> "look", dir |-> dir, pos |-> pos, a |-> a, x |-> x]
Bref(num, nm)  == [k |-> "bref", num |-> num, nm |-> nm]
Cond(nm, a, b, hasb) == [k |-> "cond", nm |-> nm, a |-> a, b |-> b, hasb |-> hasb]
Bad(why)       == [k |-> "bad", why |-> why]

IsBad(v)   == v.k = "bad"
IsEmpty(v) == v.k = "eps"
FromStr(s) == IF s = <<>> THEN Eps ELSE Lit(s)

Leaf(v) == v.k \in {"eps", "lit", "any", "cls", "wb", "nwb", "bref"}

Min(a, b) == IF a < b THEN a ELSE b
Max(a, b) == IF a > b THEN a ELSE b
\* arithmetic with Inf = -1
IMax(a, b) == IF a = Inf \/ b = Inf THEN Inf ELSE Max(a, b)
IAdd(a, b) == IF a = Inf \/ b = Inf THEN Inf ELSE a + b
IMul(a, b) == IF a = 0 \/ b = 0 THEN 0 ELSE IF a = Inf \/ b = Inf THEN Inf ELSE a * b

(***************************************************************************)
(* Structural functions the properties talk about                          *)
(***************************************************************************)
RECURSIVE HasAnchorOrPosLook(_)
HasAnchorOrPosLook(v) ==
  CASE Leaf(v)                 -> FALSE
    [] v.k \in {"cat", "alt"}  -> HasAnchorOrPosLook(v.a) \/ HasAnchorOrPosLook(v.b)
    [] v.k \in {"rep", "cap", "grp"} -> HasAnchorOrPosLook(v.a)
    [] v.k = "anch"            -> TRUE
    [] v.k = "look"            -> v.pos \/ HasAnchorOrPosLook(v.a) \/ HasAnchorOrPosLook(v.x)
    [] v.k = "cond"            -> HasAnchorOrPosLook(v.a) \/ HasAnchorOrPosLook(v.b)

\* "applied directly to a MatchAt*/FollowedBy/PrecededBy/EnclosedBy pattern"
DirectAssertion(v) == v.k = "anch" \/ (v.k = "look" /\ v.pos)

\* names of the capturing groups in opening order ("" = unnamed), following
\* the order in which the documented pattern shapes place their operands
RECURSIVE CapList(_)
CapList(v) ==
  CASE Leaf(v)                 -> <<>>
    [] v.k \in {"cat", "alt"}  -> CapList(v.a) \o CapList(v.b)
    [] v.k \in {"rep", "grp", "anch"} -> CapList(v.a)
    [] v.k = "cap"             -> <<v.nm>> \o CapList(v.a)
    [] v.k = "look"            -> (CASE v.dir = "ahead"  -> CapList(v.a) \o CapList(v.x)
                                     [] v.dir = "behind" -> CapList(v.x) \o CapList(v.a)
                                     [] v.dir = "both"   -> CapList(v.x) \o CapList(v.a) \o CapList(v.x))
    [] v.k = "cond"            -> CapList(v.a) \o CapList(v.b)

NamesOf(v) == {CapList(v)[i] : i \in DOMAIN CapList(v)} \ {""}
NamesUnique(v) == \A i, j \in DOMAIN CapList(v) :
                     (i # j /\ CapList(v)[i] # "") => CapList(v)[i] # CapList(v)[j]

\* every back-reference / conditional names a group that exists
RECURSIVE RefsIn(_)
RefsIn(v) ==
  CASE v.k \in {"eps", "lit", "any", "cls", "wb", "nwb"} -> {}
    [] v.k = "bref"            -> {<<v.num, v.nm>>}
    [] v.k \in {"cat", "alt"}  -> RefsIn(v.a) \cup RefsIn(v.b)
    [] v.k \in {"rep", "cap", "grp", "anch"} -> RefsIn(v.a)
    [] v.k = "look"            -> RefsIn(v.a) \cup RefsIn(v.x)
    [] v.k = "cond"            -> {<<0, v.nm>>} \cup RefsIn(v.a) \cup RefsIn(v.b)
RefsDefined(v) == \A r \in RefsIn(v) :
                     IF r[2] = "" THEN r[1] <= Len(CapList(v)) ELSE r[2] \in NamesOf(v)
HasRefs(v) == RefsIn(v) # {}

\* width range; WKnown is FALSE when a back-reference/conditional is inside
RECURSIVE WKnown(_)
WKnown(v) ==
  CASE v.k \in {"eps", "lit", "any", "cls", "wb", "nwb"} -> TRUE
    [] v.k \in {"bref", "cond"} -> FALSE
    [] v.k \in {"cat", "alt"}  -> WKnown(v.a) /\ WKnown(v.b)
    [] v.k \in {"rep", "cap", "grp", "anch"} -> WKnown(v.a)
    [] v.k = "look"            -> WKnown(v.a) /\ WKnown(v.x)      \* a reference to a group outside the operand, even in an
                                                                \* assertion part: the operand cannot be examined in isolation
RECURSIVE WMin(_)
WMin(v) ==
  CASE v.k \in {"eps", "wb", "nwb", "bref", "cond"} -> 0
    [] v.k = "lit"             -> Len(v.s)
    [] v.k \in {"any", "cls"}  -> 1
    [] v.k = "cat"             -> WMin(v.a) + WMin(v.b)
    [] v.k = "alt"             -> Min(WMin(v.a), WMin(v.b))
    [] v.k = "rep"             -> WMin(v.a) * v.n
    [] v.k \in {"cap", "grp", "anch", "look"} -> WMin(v.a)
RECURSIVE WMax(_)
WMax(v) ==
  CASE v.k \in {"eps", "wb", "nwb"} -> 0
    [] v.k \in {"bref", "cond"} -> Inf
    [] v.k = "lit"             -> Len(v.s)
    [] v.k \in {"any", "cls"}  -> 1
    [] v.k = "cat"             -> IAdd(WMax(v.a), WMax(v.b))
    [] v.k = "alt"             -> IMax(WMax(v.a), WMax(v.b))
    [] v.k = "rep"             -> IMul(WMax(v.a), v.m)
    [] v.k \in {"cap", "grp", "anch", "look"} -> WMax(v.a)
FixedWidth(v) == WKnown(v) /\ WMin(v) = WMax(v)

\* the spec's own matcher is only ever compared with the engine on values
\* where no zero-width-capable body sits under a repetition with max # 1
RECURSIVE SemSafe(_)
SemSafe(v) ==
  CASE Leaf(v)                 -> v.k # "bref"
    [] v.k \in {"cat", "alt"}  -> SemSafe(v.a) /\ SemSafe(v.b)
    [] v.k = "rep"             -> SemSafe(v.a) /\ (WMin(v.a) > 0 \/ v.m = 1 \/ v.m = 0)
    [] v.k \in {"cap", "grp", "anch"} -> SemSafe(v.a)
    [] v.k = "look"            -> SemSafe(v.a) /\ SemSafe(v.x)
    [] v.k = "cond"            -> FALSE

\* lookbehinds inside the value are all fixed width (what `re` requires)
RECURSIVE LookbehindsFixed(_)
LookbehindsFixed(v) ==
  CASE Leaf(v)                 -> TRUE
    [] v.k \in {"cat", "alt", "cond"} -> LookbehindsFixed(v.a) /\ LookbehindsFixed(v.b)
    [] v.k \in {"rep", "cap", "grp", "anch"} -> LookbehindsFixed(v.a)
    [] v.k = "look"            -> /\ LookbehindsFixed(v.a) /\ LookbehindsFixed(v.x)
                                  /\ (v.dir # "ahead" => (FixedWidth(v.x) \/ ~WKnown(v.x)))
\* WF: the value can be written as a pattern `re` accepts
WF(v) == LookbehindsFixed(v) /\ NamesUnique(v)

RECURSIVE Depth(_)
Depth(v) ==
  CASE Leaf(v)                 -> 0
    [] v.k \in {"cat", "alt", "cond"} -> 1 + Max(Depth(v.a), Depth(v.b))
    [] v.k \in {"rep", "cap", "grp", "anch"} -> 1 + Depth(v.a)
    [] v.k = "look"            -> 1 + Max(Depth(v.a), Depth(v.x))

\* number of operator nodes, and whether some parent/child pair is precedence
\* sensitive (used for the "non-trivial case" count of C02)
RECURSIVE Ops(_)
Ops(v) ==
  CASE Leaf(v)                 -> 0
    [] v.k \in {"cat", "alt", "cond"} -> 1 + Ops(v.a) + Ops(v.b)
    [] v.k \in {"rep", "cap", "grp", "anch"} -> 1 + Ops(v.a)
    [] v.k = "look"            -> 1 + Ops(v.a) + Ops(v.x)
Level(v) == CASE v.k = "alt" -> 0
              [] v.k \in {"cat", "anch", "look"} -> 1
              [] v.k = "lit" -> IF Len(v.s) > 1 THEN 1 ELSE 3
              [] v.k = "rep" -> 2
              [] OTHER -> 3
RECURSIVE PrecSensitive(_)
PrecSensitive(v) ==
  CASE Leaf(v)                 -> FALSE
    [] v.k = "cat"             -> Level(v.a) < 1 \/ Level(v.b) < 1 \/ PrecSensitive(v.a) \/ PrecSensitive(v.b)
    [] v.k \in {"alt", "cond"} -> PrecSensitive(v.a) \/ PrecSensitive(v.b)
    [] v.k = "rep"             -> Level(v.a) < 3 \/ PrecSensitive(v.a)
    [] v.k \in {"cap", "grp"}  -> PrecSensitive(v.a)
    [] v.k = "anch"            -> Level(v.a) < 1 \/ PrecSensitive(v.a)
    [] v.k = "look"            -> Level(v.a) < 1 \/ PrecSensitive(v.a) \/ PrecSensitive(v.x)

(***************************************************************************)
(* RefText: the canonical fully parenthesised, hex-escaped pattern.  Pure   *)
(* ASCII and independent of every escaping/grouping decision of the library *)
(***************************************************************************)
HexD == <<"0","1","2","3","4","5","6","7","8","9","a","b","c","d","e","f">>
RECURSIVE HexN(_, _)
HexN(n, w) == IF w = 0 THEN "" ELSE HexN(n \div 16, w - 1) \o HexD[(n % 16) + 1]
ChTxt(c) == IF c < 256 THEN "\\x" \o HexN(c, 2)
            ELSE IF c < 65536 THEN "\\u" \o HexN(c, 4) ELSE "\\U" \o HexN(c, 8)
RECURSIVE StrTxt(_)
StrTxt(s) == IF s = <<>> THEN "" ELSE ChTxt(Head(s)) \o StrTxt(Tail(s))
RECURSIVE IvTxt(_)
IvTxt(iv) == IF iv = <<>> THEN ""
             ELSE ChTxt(Head(iv)[1]) \o "-" \o ChTxt(Head(iv)[2]) \o IvTxt(Tail(iv))
RECURSIVE NatTxt(_)
NatTxt(n) == IF n < 10 THEN HexD[n + 1] ELSE NatTxt(n \div 10) \o HexD[(n % 10) + 1]
W(x) == "(?:" \o x \o ")"
ClsTxt(neg, iv) == IF iv = <<>> THEN (IF neg THEN "[\\x00-\\U0010ffff]" ELSE "[^\\x00-\\U0010ffff]")
                   ELSE "[" \o (IF neg THEN "^" ELSE "") \o IvTxt(iv) \o "]"
RECURSIVE Ref(_)
Ref(v) ==
  CASE v.k = "eps"  -> ""
    [] v.k = "lit"  -> StrTxt(v.s)
    [] v.k = "any"  -> "[\\x00-\\U0010ffff]"
    [] v.k = "cls"  -> ClsTxt(v.neg, v.iv)
    [] v.k = "cat"  -> W(Ref(v.a)) \o W(Ref(v.b))
    [] v.k = "alt"  -> W(Ref(v.a)) \o "|" \o W(Ref(v.b))
    [] v.k = "rep"  -> W(Ref(v.a)) \o "{" \o NatTxt(v.n) \o "," \o
                       (IF v.m = Inf THEN "" ELSE NatTxt(v.m)) \o "}" \o (IF v.g THEN "" ELSE "?")
    [] v.k = "cap"  -> (IF v.nm = "" THEN "(" ELSE "(?P<" \o v.nm \o ">") \o Ref(v.a) \o ")"
    [] v.k = "grp"  -> (IF v.ci THEN "(?i:" ELSE "(?:") \o Ref(v.a) \o ")"
    [] v.k = "anch" -> (CASE v.kd = "bos" -> "\\A" \o W(Ref(v.a))
                          [] v.kd = "eos" -> W(Ref(v.a)) \o "\\Z"
                          [] v.kd = "bol" -> "^" \o W(Ref(v.a))
                          [] v.kd = "eol" -> W(Ref(v.a)) \o "$")
    [] v.k = "wb"   -> "\\b"
    [] v.k = "nwb"  -> "\\B"
    [] v.k = "look" -> LET x  == Ref(v.x)
                           m  == W(Ref(v.a))
                           la == (IF v.pos THEN "(?=" ELSE "(?!") \o x \o ")"
                           lb == (IF v.pos THEN "(?<=" ELSE "(?<!") \o x \o ")"
                       IN (CASE v.dir = "ahead"  -> m \o la
                             [] v.dir = "behind" -> lb \o m
                             [] v.dir = "both"   -> lb \o m \o la)
    [] v.k = "bref" -> IF v.nm = "" THEN W("\\" \o NatTxt(v.num)) ELSE "(?P=" \o v.nm \o ")"
    [] v.k = "cond" -> "(?(" \o v.nm \o ")" \o W(Ref(v.a)) \o
                       (IF v.hasb THEN "|" \o W(Ref(v.b)) ELSE "") \o ")"
=============================================================================
