------------------------------- MODULE CharSet -------------------------------
(***************************************************************************)
(* Character sets as normalised interval lists over code points.           *)
(* An interval list is a sequence of <<lo, hi>> with lo <= hi, sorted,      *)
(* pairwise disjoint and non-adjacent (hi + 1 < next lo).                   *)
(*                                                                         *)
(* A class value is [neg, iv, any, glob]: for a regular class iv is the    *)
(* matched set, for a negated class the EXCLUDED set (that is how the      *)
(* documentation defines | and - on negated classes); any marks Any();     *)
(* glob marks AnyWordChar/AnyButWordChar(is_global=True).                  *)
(***************************************************************************)
EXTENDS Naturals, Integers, Sequences, FiniteSets, TLC

MaxCP == 1114111

InIv(iv, c) == \E i \in 1..Len(iv) : iv[i][1] <= c /\ c <= iv[i][2]

Normal(iv) == /\ \A i \in 1..Len(iv) : iv[i][1] <= iv[i][2]
              /\ \A i \in 1..(Len(iv) - 1) : iv[i][2] + 1 < iv[i + 1][1]

\* insert one interval into a normalised list, merging overlaps and adjacency
RECURSIVE Insert(_, _)
Insert(iv, x) ==
  IF iv = <<>> THEN <<x>>
  ELSE LET h == Head(iv) IN
       IF x[2] + 1 < h[1] THEN <<x>> \o iv
       ELSE IF h[2] + 1 < x[1] THEN <<h>> \o Insert(Tail(iv), x)
       ELSE Insert(Tail(iv), << (IF h[1] < x[1] THEN h[1] ELSE x[1]), (IF h[2] > x[2] THEN h[2] ELSE x[2]) >>)

RECURSIVE Union(_, _)
Union(a, b) == IF b = <<>> THEN a ELSE Union(Insert(a, Head(b)), Tail(b))

\* remove one interval from a normalised list
RECURSIVE Remove(_, _)
Remove(iv, x) ==
  IF iv = <<>> THEN <<>>
  ELSE LET h == Head(iv) IN
       IF h[2] < x[1] THEN <<h>> \o Remove(Tail(iv), x)
       ELSE IF x[2] < h[1] THEN iv
       ELSE (IF h[1] < x[1] THEN << <<h[1], x[1] - 1>> >> ELSE <<>>)
            \o (IF x[2] < h[2] THEN << <<x[2] + 1, h[2]>> >> \o Tail(iv) ELSE Remove(Tail(iv), x))

RECURSIVE Diff(_, _)
Diff(a, b) == IF b = <<>> THEN a ELSE Diff(Remove(a, Head(b)), Tail(b))

RECURSIVE ComplIv(_, _)
ComplIv(iv, from) ==
  IF iv = <<>> THEN (IF from <= MaxCP THEN << <<from, MaxCP>> >> ELSE <<>>)
  ELSE (IF from < Head(iv)[1] THEN << <<from, Head(iv)[1] - 1>> >> ELSE <<>>) \o ComplIv(Tail(iv), Head(iv)[2] + 1)
Compl(iv) == ComplIv(iv, 0)

RECURSIVE IvOfChars(_)
IvOfChars(s) == IF s = <<>> THEN <<>> ELSE Insert(IvOfChars(Tail(s)), <<Head(s), Head(s)>>)

Subset(a, b) == Diff(a, b) = <<>>

(* ------------------------------ class values --------------------------- *)
CV(neg, iv)  == [neg |-> neg, iv |-> iv, any |-> FALSE, glob |-> FALSE]
AnyV         == [neg |-> FALSE, iv |-> << <<0, MaxCP>> >>, any |-> TRUE, glob |-> FALSE]
GlobV(neg)   == [neg |-> neg, iv |-> << <<48, 57>>, <<65, 90>>, <<95, 95>>, <<97, 122>> >>, any |-> FALSE, glob |-> TRUE]

\* the set of code points the class matches
Denote(v) == IF v.neg THEN Compl(v.iv) ELSE v.iv
Mem(v, c) == IF v.neg THEN ~InIv(v.iv, c) ELSE InIv(v.iv, c)

(* documented named classes (ASCII cores of the shorthands) *)
Digits  == << <<48, 57>> >>
Lower   == << <<97, 122>> >>
Upper   == << <<65, 90>> >>
Letters == << <<65, 90>>, <<97, 122>> >>
WordC   == << <<48, 57>>, <<65, 90>>, <<95, 95>>, <<97, 122>> >>
Punct   == << <<33, 47>>, <<58, 64>>, <<91, 96>>, <<123, 126>> >>
White   == << <<9, 13>>, <<32, 32>> >>
German  == Union(Letters, << <<196, 196>>, <<214, 214>>, <<220, 220>>, <<223, 223>>, <<228, 228>>, <<246, 246>>, <<252, 252>>, <<7838, 7838>> >>)
Greek   == << <<902, 902>>, <<904, 974>> >>
Cyrillic == << <<1024, 1279>> >>
CJK     == << <<19968, 40917>> >>
Hebrew  == << <<1424, 1535>> >>
Korean  == << <<12593, 12622>>, <<44032, 55203>> >>

NamedIv(n) ==
  CASE n = "Letter" -> Letters [] n = "LowercaseLetter" -> Lower [] n = "UppercaseLetter" -> Upper
    [] n = "Digit" -> Digits [] n = "WordChar" -> WordC [] n = "Punctuation" -> Punct
    [] n = "Whitespace" -> White [] n = "GermanLetter" -> German [] n = "GreekLetter" -> Greek
    [] n = "CyrillicLetter" -> Cyrillic [] n = "CJK" -> CJK [] n = "HebrewLetter" -> Hebrew
    [] n = "KoreanLetter" -> Korean
NamedClasses == {"Letter", "LowercaseLetter", "UppercaseLetter", "Digit", "WordChar", "Punctuation", "Whitespace",
                 "GermanLetter", "GreekLetter", "CyrillicLetter", "CJK", "HebrewLetter", "KoreanLetter"}

\* which Unicode-aware shorthands (\d \s \w) a correct implementation may use
\* for a set: those whose ASCII core is included in it
Shorthands(iv) == (IF Subset(Digits, iv) THEN {"d"} ELSE {}) \cup (IF Subset(White, iv) THEN {"s"} ELSE {})
                  \cup (IF Subset(WordC, iv) THEN {"w"} ELSE {})
=============================================================================
