------------------------------ MODULE PregexSem ------------------------------
(***************************************************************************)
(* Reference semantics of core values: a backtracking matcher in priority  *)
(* order (what CPython's re does under MULTILINE|DOTALL).                  *)
(*                                                                         *)
(*   M(e, t, i, caps, base, ci, nms) = the SEQUENCE of <<end, caps>>        *)
(*   results of matching e at position i (0-based) of text t, most          *)
(*   preferred first: alternation left first, greedy longest-iteration      *)
(*   first, lazy shortest first.  caps is the sequence of group spans       *)
(*   (<<-1,-1>> = unset); base = number of groups opened before e; ci =     *)
(*   inside a case-insensitive group; nms = the group names of the whole    *)
(*   expression (for named back-references).                                *)
(*   Find = re.finditer (left to right, first result per start position,    *)
(*   CPython's must-advance rule after an empty match), Full = re.fullmatch.*)
(*                                                                         *)
(* Two CPython-specific rules are modelled: a loop stops iterating once its *)
(* minimum is met and the position equals the start of the previous          *)
(* iteration; \B does not match in the empty text.  The semantics is only   *)
(* ever COMPARED with the engine on SemSafe values (PregexCore); a          *)
(* disagreement there is a defect of the specification (exit 2), never a    *)
(* verdict on the library.                                                  *)
(***************************************************************************)
EXTENDS PregexCore

IsWord(c) == (c >= 48 /\ c <= 57) \/ (c >= 65 /\ c <= 90) \/ (c >= 97 /\ c <= 122) \/ c = 95
Fold(c) == IF c >= 65 /\ c <= 90 THEN c + 32 ELSE c
Up(c)   == IF c >= 97 /\ c <= 122 THEN c - 32 ELSE c
InIvS(iv, c) == \E x \in 1..Len(iv) : iv[x][1] <= c /\ c <= iv[x][2]

NCaps(e) == Len(CapList(e))

RECURSIVE M(_, _, _, _, _, _, _), FlatCat(_, _, _, _, _, _, _), RepM(_, _, _, _, _, _, _, _, _, _, _),
          RepAll(_, _, _, _, _, _, _, _, _, _, _)

FlatCat(rs, b, t, base, ci, nms, idx) ==
  IF idx > Len(rs) THEN <<>>
  ELSE M(b, t, rs[idx][1], rs[idx][2], base, ci, nms) \o FlatCat(rs, b, t, base, ci, nms, idx + 1)

RepAll(rs, a, n, m, g, t, base, ci, nms, prev, idx) ==
  IF idx > Len(rs) THEN <<>>
  ELSE RepM(a, n, m, g, t, rs[idx][1], rs[idx][2], base, ci, nms, prev)
       \o RepAll(rs, a, n, m, g, t, base, ci, nms, prev, idx + 1)

\* prev = start position of the previous iteration (-1 if none); m = Inf (-1) unbounded
RepM(a, n, m, g, t, i, caps, base, ci, nms, prev) ==
  LET stop == IF n <= 0 THEN << <<i, caps>> >> ELSE <<>>
      more == IF m = 0 \/ (n <= 0 /\ i = prev) THEN <<>>
              ELSE RepAll(M(a, t, i, caps, base, ci, nms), a, IF n > 0 THEN n - 1 ELSE 0,
                          IF m > 0 THEN m - 1 ELSE m, g, t, base, ci, nms, i, 1)
  IN IF g THEN more \o stop ELSE stop \o more

First(rs) == IF rs = <<>> THEN <<>> ELSE << rs[1] >>

LitAt(s, t, i, ci) ==
  /\ i + Len(s) <= Len(t)
  /\ \A d \in 1..Len(s) : IF ci THEN Fold(t[i + d]) = Fold(s[d]) ELSE t[i + d] = s[d]

NameIndex(nms, nm) == CHOOSE k \in 1..Len(nms) : nms[k] = nm

M(e, t, i, caps, base, ci, nms) ==
  CASE e.k = "eps" -> << <<i, caps>> >>
    [] e.k = "lit" -> IF LitAt(e.s, t, i, ci) THEN << <<i + Len(e.s), caps>> >> ELSE <<>>
    [] e.k = "any" -> IF i < Len(t) THEN << <<i + 1, caps>> >> ELSE <<>>
    [] e.k = "cls" -> IF i < Len(t) /\ ((InIvS(e.iv, t[i + 1]) \/ (ci /\ (InIvS(e.iv, Fold(t[i + 1])) \/ InIvS(e.iv, Up(t[i + 1]))))) # e.neg)
                      THEN << <<i + 1, caps>> >> ELSE <<>>
    [] e.k = "cat" -> FlatCat(M(e.a, t, i, caps, base, ci, nms), e.b, t, base + NCaps(e.a), ci, nms, 1)
    [] e.k = "alt" -> M(e.a, t, i, caps, base, ci, nms) \o M(e.b, t, i, caps, base + NCaps(e.a), ci, nms)
    [] e.k = "rep" -> RepM(e.a, e.n, e.m, e.g, t, i, caps, base, ci, nms, -1)
    [] e.k = "cap" -> LET rs == M(e.a, t, i, caps, base + 1, ci, nms) IN
                      [x \in 1..Len(rs) |-> << rs[x][1], [rs[x][2] EXCEPT ![base + 1] = <<i, rs[x][1]>>] >>]
    [] e.k = "grp" -> M(e.a, t, i, caps, base, ci \/ e.ci, nms)
    [] e.k = "anch" ->
         (CASE e.kd = "bos" -> IF i = 0 THEN M(e.a, t, i, caps, base, ci, nms) ELSE <<>>
            [] e.kd = "bol" -> IF i = 0 \/ t[i] = 10 THEN M(e.a, t, i, caps, base, ci, nms) ELSE <<>>
            [] e.kd = "eos" -> SelectSeq(M(e.a, t, i, caps, base, ci, nms), LAMBDA q : q[1] = Len(t))
            [] e.kd = "eol" -> SelectSeq(M(e.a, t, i, caps, base, ci, nms), LAMBDA q : q[1] = Len(t) \/ t[q[1] + 1] = 10))
    [] e.k \in {"wb", "nwb"} ->
         LET a == i > 0 /\ IsWord(t[i])
             b == i < Len(t) /\ IsWord(t[i + 1])
         IN IF Len(t) > 0 /\ ((a # b) = (e.k = "wb")) THEN << <<i, caps>> >> ELSE <<>>
    [] e.k = "look" ->
         LET ahead(rs, xbase) ==     \* apply the lookahead x after each result of the match operand
               LET keep(q) == LET r == First(M(e.x, t, q[1], q[2], xbase, ci, nms)) IN
                              IF e.pos THEN (IF r # <<>> THEN << <<q[1], r[1][2]>> >> ELSE <<>>)
                              ELSE (IF r = <<>> THEN << q >> ELSE <<>>)
                   RECURSIVE go(_)
                   go(k) == IF k > Len(rs) THEN <<>> ELSE keep(rs[k]) \o go(k + 1)
               IN go(1)
             w == WMin(e.x)
             behindR == IF i - w < 0 THEN <<>>
                        ELSE First(SelectSeq(M(e.x, t, i - w, caps, base, ci, nms), LAMBDA q : q[1] = i))
         IN CASE e.dir = "ahead"  -> ahead(M(e.a, t, i, caps, base, ci, nms), base + NCaps(e.a))
              [] e.dir = "behind" ->
                   (IF e.pos THEN (IF behindR # <<>> THEN M(e.a, t, i, behindR[1][2], base + NCaps(e.x), ci, nms) ELSE <<>>)
                    ELSE (IF behindR = <<>> THEN M(e.a, t, i, caps, base + NCaps(e.x), ci, nms) ELSE <<>>))
              [] e.dir = "both" ->
                   (IF e.pos THEN (IF behindR # <<>> THEN ahead(M(e.a, t, i, behindR[1][2], base + NCaps(e.x), ci, nms), base + NCaps(e.x) + NCaps(e.a)) ELSE <<>>)
                    ELSE (IF behindR = <<>> THEN ahead(M(e.a, t, i, caps, base + NCaps(e.x), ci, nms), base + NCaps(e.x) + NCaps(e.a)) ELSE <<>>))
    [] e.k = "bref" ->
         LET k  == IF e.nm = "" THEN e.num ELSE NameIndex(nms, e.nm)
             sp == caps[k]
         IN IF sp[1] = -1 THEN <<>>
            ELSE LET L == sp[2] - sp[1] IN
                 IF i + L <= Len(t) /\ \A d \in 1..L : (IF ci THEN Fold(t[sp[1] + d]) = Fold(t[i + d]) ELSE t[sp[1] + d] = t[i + d])
                 THEN << <<i + L, caps>> >> ELSE <<>>

NoCaps(n) == [x \in 1..n |-> <<-1, -1>>]
Run(e, t, pos) == M(e, t, pos, NoCaps(NCaps(e)), 0, FALSE, CapList(e))

RECURSIVE FindFrom(_, _, _, _)
FindFrom(e, t, pos, must) ==
  IF pos > Len(t) THEN <<>>
  ELSE LET rs0 == Run(e, t, pos)
           rs  == IF must THEN SelectSeq(rs0, LAMBDA q : q[1] > pos) ELSE rs0
       IN IF rs = <<>> THEN FindFrom(e, t, pos + 1, FALSE)
          ELSE << <<pos, rs[1][1], rs[1][2]>> >> \o
               (IF rs[1][1] = pos THEN FindFrom(e, t, pos, TRUE) ELSE FindFrom(e, t, rs[1][1], FALSE))
Find(e, t) == FindFrom(e, t, 0, FALSE)
Full(e, t) == \E x \in DOMAIN Run(e, t, 0) : Run(e, t, 0)[x][1] = Len(t)
\* the result re.match would return at position 0 (end of the most preferred alternative), -1 if none
MatchEnd(e, t) == IF Run(e, t, 0) = <<>> THEN -1 ELSE Run(e, t, 0)[1][1]

\* values on which the matcher is calibrated: SemSafe, no conditionals, back-references only to defined groups,
\* and no captures inside the assertion of an EnclosedBy (it would occur twice)
RECURSIVE NoBothCaps(_)
NoBothCaps(v) ==
  CASE Leaf(v) -> TRUE
    [] v.k \in {"cat", "alt", "cond"} -> NoBothCaps(v.a) /\ NoBothCaps(v.b)
    [] v.k \in {"rep", "cap", "grp", "anch"} -> NoBothCaps(v.a)
    [] v.k = "look" -> NoBothCaps(v.a) /\ NoBothCaps(v.x) /\ (v.dir = "both" => NCaps(v.x) = 0)
RECURSIVE BrefSafe(_)
BrefSafe(v) ==    \* SemSafe excludes bref leaves under its Leaf case; this variant admits defined ones
  CASE v.k = "bref" -> TRUE
    [] Leaf(v) -> TRUE
    [] v.k \in {"cat", "alt"} -> BrefSafe(v.a) /\ BrefSafe(v.b)
    [] v.k = "rep" -> BrefSafe(v.a) /\ (WMin(v.a) > 0 \/ v.m = 1 \/ v.m = 0) /\ ~HasRefs(v.a)
    [] v.k \in {"cap", "grp", "anch"} -> BrefSafe(v.a)
    [] v.k = "look" -> BrefSafe(v.a) /\ BrefSafe(v.x) /\ (v.dir # "ahead" => ~HasRefs(v.x))
    [] v.k = "cond" -> FALSE
Calibratable(v) == BrefSafe(v) /\ NoBothCaps(v) /\ RefsDefined(v) /\ WF(v) /\ LookbehindsFixed(v)
=============================================================================
