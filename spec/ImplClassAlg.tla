----------------------------- MODULE ImplClassAlg -----------------------------
(***************************************************************************)
(* Layer I for classes.py: the interval loops of class union and class      *)
(* subtraction, transcribed on abstract ranges <<lo, hi>> and characters     *)
(* (code points), one action per iteration of the library's outer loops:     *)
(*     __or  : reduce_ranges, reduce_chars                                   *)
(*     __sub : steps 2.a-2.d with subtract_ranges (as repaired by the fix:   *)
(*             commits recorded in known_findings.json)                      *)
(* The library builds its work lists from Python SETS, so the iteration      *)
(* order is part of the input.  Here every order is explored: the lists      *)
(* start as an arbitrary permutation of the operand sets and TLC runs the    *)
(* loops to completion.                                                      *)
(* Theorems, for every operand pair over the window and EVERY order:         *)
(*   Termination       the restart loops ("i = -1; break") always finish     *)
(*   UnionCorrect      the final ranges/chars denote A union B               *)
(*   SubCorrect        the final ranges/chars denote A minus B               *)
(*   RangesWellFormed  no inverted range is ever built                       *)
(* This is a model of the design, not a verdict oracle: the code is bound to  *)
(* the specification by the C06/C07 replay (full-range membership under       *)
(* several hash seeds), not by this module.                                   *)
(* RunCfg: AlgWin (set of code points), MaxR, MaxC (operand sizes), AlgOp     *)
(***************************************************************************)
EXTENDS Naturals, Integers, Sequences, FiniteSets, TLC, RunCfg

AllRanges == { r \in AlgWin \X AlgWin : r[1] < r[2] }
SmallSubsets(S, n) == { T \in SUBSET S : Cardinality(T) <= n }
Perms(S) == { f \in [1..Cardinality(S) -> S] : \A a, b \in 1..Cardinality(S) : a # b => f[a] # f[b] }

InR(r, c) == r[1] <= c /\ c <= r[2]
Denotes(rs, cs, c) == (\E k \in 1..Len(rs) : InR(rs[k], c)) \/ (\E k \in 1..Len(cs) : cs[k] = c)
DenotesSet(R, C, c) == (\E r \in R : InR(r, c)) \/ c \in C
Probe == { c \in (AlgWin \cup { x - 1 : x \in AlgWin } \cup { x + 1 : x \in AlgWin }) : c >= 0 }

RemoveAt(s, k) == [x \in 1..(Len(s) - 1) |-> IF x < k THEN s[x] ELSE s[x + 1]]
Max2(a, b) == IF a > b THEN a ELSE b
MinOf(S) == CHOOSE x \in S : \A y \in S : x <= y

VARIABLES R1, C1, R2, C2,          \* the operands (sets of ranges, sets of characters)
          ranges, chars,           \* the work lists of the minuend / of the union
          sub, ranges2,            \* subtraction: the ranges being subtracted now; the subtrahend's ranges
          i, phase, stage
vars == <<R1, C1, R2, C2, ranges, chars, sub, ranges2, i, phase, stage>>

Init == /\ R1 \in SmallSubsets(AllRanges, MaxR) /\ C1 \in SmallSubsets(AlgWin, MaxC)
        /\ R2 \in SmallSubsets(AllRanges, MaxR) /\ C2 \in SmallSubsets(AlgWin, MaxC)
        /\ ranges = <<>> /\ chars = <<>> /\ sub = <<>> /\ ranges2 = <<>>
        /\ i = 1 /\ phase = "start" /\ stage = ""

\* the sets become lists in an arbitrary order
Start ==
  /\ phase = "start"
  /\ IF AlgOp = "or"
     THEN \E p \in Perms(R1 \cup R2), q \in Perms(C1 \cup C2) :
            /\ ranges' = p /\ chars' = q /\ sub' = <<>> /\ ranges2' = <<>>
            /\ phase' = "reduce_ranges" /\ stage' = ""
     ELSE \E p \in Perms(R1), q \in Perms(C1 \ C2), p2 \in Perms(R2), q2 \in Perms(C2) :    \* 2.a: chars1 - chars2
            /\ ranges' = p /\ chars' = q /\ ranges2' = p2
            /\ sub' = [k \in 1..Len(q2) |-> <<q2[k], q2[k]>>]                                   \* 2.b subtracts c-c ranges
            /\ phase' = "subtract" /\ stage' = "b"
  /\ i' = 1 /\ UNCHANGED <<R1, C1, R2, C2>>

(* ------------------------------ __or ----------------------------------- *)
ReduceRanges ==
  /\ phase = "reduce_ranges"
  /\ IF Len(ranges) < 2 \/ i > Len(ranges)
     THEN phase' = "reduce_chars" /\ i' = 1 /\ UNCHANGED <<ranges, chars>>
     ELSE LET J == { j \in 1..Len(ranges) : j # i /\ ranges[i][1] <= ranges[j][1] /\ ranges[i][2] + 1 >= ranges[j][1] } IN
          IF J = {} THEN i' = i + 1 /\ UNCHANGED <<ranges, chars, phase>>
          ELSE LET j == MinOf(J) IN
               /\ ranges' = RemoveAt([ranges EXCEPT ![i] = <<ranges[i][1], Max2(ranges[i][2], ranges[j][2])>>], j)
               /\ i' = 1 /\ UNCHANGED <<chars, phase>>                  \* "i = -1; break; i += 1"
  /\ UNCHANGED <<R1, C1, R2, C2, sub, ranges2, stage>>

ReduceChars ==
  /\ phase = "reduce_chars"
  /\ IF i > Len(chars)
     THEN phase' = "done" /\ UNCHANGED <<ranges, chars, i>>
     ELSE LET c == chars[i]
              J == { j \in 1..Len(ranges) : InR(ranges[j], c) \/ ranges[j][1] = c + 1 \/ ranges[j][2] = c - 1 } IN
          IF J = {} THEN i' = i + 1 /\ UNCHANGED <<ranges, chars, phase>>
          ELSE LET j == MinOf(J) IN
               /\ ranges' = IF InR(ranges[j], c) THEN ranges
                            ELSE IF ranges[j][1] = c + 1 THEN [ranges EXCEPT ![j] = <<c, ranges[j][2]>>]
                            ELSE [ranges EXCEPT ![j] = <<ranges[j][1], c>>]
               /\ chars' = RemoveAt(chars, i)
               /\ i' = 1 /\ UNCHANGED phase
  /\ UNCHANGED <<R1, C1, R2, C2, sub, ranges2, stage>>

(* ------------------------------ __sub ---------------------------------- *)
\* one iteration of the outer loop of subtract_ranges(ranges, sub)
Subtract ==
  /\ phase = "subtract"
  /\ IF i > Len(ranges)
     THEN phase' = "classify" /\ UNCHANGED <<ranges, i>>
     ELSE LET r == ranges[i]
              J == { j \in 1..Len(sub) : r[1] <= sub[j][2] /\ r[2] >= sub[j][1] } IN
          IF J = {} THEN i' = i + 1 /\ UNCHANGED <<ranges, phase>>
          ELSE LET s == sub[MinOf(J)]
                   left  == IF r[1] < s[1] THEN << <<r[1], s[1] - 1>> >> ELSE <<>>
                   right == IF r[2] > s[2] THEN << <<s[2] + 1, r[2]>> >> ELSE <<>>
               IN /\ ranges' = RemoveAt(ranges, i) \o left \o right      \* "pop(i); i -= 1; ranges1 += split; break; i += 1"
                  /\ UNCHANGED <<i, phase>>
  /\ UNCHANGED <<R1, C1, R2, C2, chars, sub, ranges2, stage>>

\* the tail of subtract_ranges: one- and two-character ranges become characters; then the next step of __sub
Classify ==
  /\ phase = "classify"
  /\ LET small(r) == r[2] <= r[1] + 1
         keep == SelectSeq(ranges, LAMBDA r : ~small(r))
         RECURSIVE newchars(_)
         newchars(k) == IF k > Len(ranges) THEN <<>>
                        ELSE (IF ranges[k][1] = ranges[k][2] THEN <<ranges[k][1]>>
                              ELSE IF small(ranges[k]) THEN <<ranges[k][1], ranges[k][2]>> ELSE <<>>) \o newchars(k + 1)
         allchars == chars \o newchars(1)
     IN IF stage = "b"
        THEN \* 2.c: subtract the subtrahend's ranges from the characters (including those just produced); then 2.d
             /\ chars' = SelectSeq(allchars, LAMBDA c : ~\E k \in 1..Len(ranges2) : InR(ranges2[k], c))
             /\ ranges' = keep /\ sub' = ranges2 /\ stage' = "d" /\ phase' = "subtract" /\ i' = 1
        ELSE /\ chars' = allchars /\ ranges' = keep /\ phase' = "done" /\ UNCHANGED <<sub, stage, i>>
  /\ UNCHANGED <<R1, C1, R2, C2, ranges2>>

Next == Start \/ ReduceRanges \/ ReduceChars \/ Subtract \/ Classify
Spec == Init /\ [][Next]_vars /\ WF_vars(Next)

Finished == phase = "done"
UnionCorrect ==
  (Finished /\ AlgOp = "or") =>
     \A c \in Probe : Denotes(ranges, chars, c) = (DenotesSet(R1, C1, c) \/ DenotesSet(R2, C2, c))
SubCorrect ==
  (Finished /\ AlgOp = "sub") =>
     \A c \in Probe : Denotes(ranges, chars, c) = (DenotesSet(R1, C1, c) /\ ~DenotesSet(R2, C2, c))
RangesWellFormed == \A k \in 1..Len(ranges) : ranges[k][1] <= ranges[k][2]
Termination == <>Finished
=============================================================================
