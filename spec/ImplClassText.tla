---------------------------- MODULE ImplClassText ----------------------------
\* Layer I for classes.py, text level: how a class is written down and read back.
\*
\*   WriteBody    the body of a verbose class pattern: every range as  esc(lo) - esc(hi), every single character as esc(c),
\*              esc adding a backslash in front of  \ ^ [ ] - /   (__modify_classes(escape=True)), the items in an
\*              ARBITRARY order (they are joined from a Python set)
\*   Separate   __separate_classes: one left-to-right scan with the library's regular expression
\*              (range_pattern) | \\?.      a range being   item - item,
\*              item = backslash followed by one of [ ] ^ $ - / \ or a lower-case letter, or any character other than [ ] ^ - / \
\*   SplitRange __split_range: by the number of '-' in the token (1: split; 2: at the first '-' when the token ends with '-',
\*              otherwise at the last; 3 or more: both ends are '-')
\*   Unescape   __modify_classes(escape=False): the first backslash goes when the second character is one of \ ^ [ ] - /
\*
\* Theorem RoundTrip, for every set of ranges and characters over the window - which contains every character the escaping
\* rules mention - and EVERY order of the items: reading back what was written yields exactly the ranges and characters
\* that were written.  (Every union, subtraction and negation of classes goes through this round trip; the defects F09, F11,
\* F12, F14 of known_findings.json were violations of it.)  A model of the design, not a verdict oracle.
\* RunCfg: TxtWin (set of code points), MaxR, MaxC
EXTENDS Naturals, Sequences, FiniteSets, TLC, RunCfg

BS == 92
EscSetC == {92, 94, 91, 93, 45, 47}                       \* \ ^ [ ] - /
Esc(c) == IF c \in EscSetC THEN <<BS, c>> ELSE <<c>>
AllRangesT == { r \in TxtWin \X TxtWin : r[1] < r[2] }
RECURSIVE Small(_, _)                                    \* subsets of at most n elements, built up (SUBSET S is far too large)
Small(S, n) == IF n = 0 THEN {{}} ELSE LET P == Small(S, n - 1) IN P \cup { T \cup {x} : T \in P, x \in S }
Perms(S) == { f \in [1..Cardinality(S) -> S] : \A a, b \in 1..Cardinality(S) : a # b => f[a] # f[b] }

\* an item of the class body: <<"r", lo, hi>> or <<"c", c>>
ItemText(it) == IF it[1] = "r" THEN Esc(it[2]) \o <<45>> \o Esc(it[3]) ELSE Esc(it[2])
RECURSIVE WriteBody(_)
WriteBody(items) == IF items = <<>> THEN <<>> ELSE ItemText(Head(items)) \o WriteBody(Tail(items))

\* ---------------------------------------------------------------- __separate_classes
AfterBS == {91, 93, 94, 36, 45, 47, 92} \cup (97..122)     \* what may follow a backslash inside a range item
Plain(c) == c \notin {91, 93, 94, 45, 47, 92}
\* length of a range item starting at i (0 = none)
ItemLen(t, i) == IF i > Len(t) THEN 0
                 ELSE IF t[i] = BS /\ i < Len(t) /\ t[i + 1] \in AfterBS THEN 2
                 ELSE IF Plain(t[i]) THEN 1 ELSE 0
\* length of a range token starting at i (0 = none)
RangeLen(t, i) == LET a == ItemLen(t, i) IN
                  IF a = 0 \/ i + a > Len(t) \/ t[i + a] # 45 THEN 0
                  ELSE LET b == ItemLen(t, i + a + 1) IN IF b = 0 THEN 0 ELSE a + 1 + b
RECURSIVE Separate(_, _)        \* sequence of tokens <<isRange, text>>
Separate(t, i) ==
  IF i > Len(t) THEN <<>>
  ELSE LET r == RangeLen(t, i) IN
       IF r > 0 THEN << <<TRUE, SubSeq(t, i, i + r - 1)>> >> \o Separate(t, i + r)
       ELSE LET n == IF t[i] = BS /\ i < Len(t) THEN 2 ELSE 1 IN
            << <<FALSE, SubSeq(t, i, i + n - 1)>> >> \o Separate(t, i + n)

\* ---------------------------------------------------------------- __split_range, unescape
Count(s, c) == Cardinality({ k \in 1..Len(s) : s[k] = c })
FirstAt(s, c) == CHOOSE k \in 1..Len(s) : s[k] = c /\ \A j \in 1..(k - 1) : s[j] # c
LastAt(s, c)  == CHOOSE k \in 1..Len(s) : s[k] = c /\ \A j \in (k + 1)..Len(s) : s[j] # c
SplitRange(s) ==
  LET n == Count(s, 45) IN
  IF n = 1 THEN LET k == FirstAt(s, 45) IN << SubSeq(s, 1, k - 1), SubSeq(s, k + 1, Len(s)) >>
  ELSE IF n = 2 THEN LET k == IF s[Len(s)] = 45 THEN FirstAt(s, 45) ELSE LastAt(s, 45)
                     IN << SubSeq(s, 1, k - 1), SubSeq(s, k + 1, Len(s)) >>
  ELSE << <<45>>, <<45>> >>
Unesc(s) == IF Len(s) > 1 /\ s[2] \in EscSetC /\ s[1] = BS THEN Tail(s) ELSE s

\* what is read back: sets of ranges <<lo, hi>> and of characters; Bad marks a piece that is not one character
Bad == 0
One(s) == IF Len(s) = 1 THEN s[1] ELSE Bad
ReadRanges(toks) == { LET p == SplitRange(toks[k][2]) IN << One(Unesc(p[1])), One(Unesc(p[2])) >> : k \in { j \in 1..Len(toks) : toks[j][1] } }
ReadChars(toks)  == { One(Unesc(toks[k][2])) : k \in { j \in 1..Len(toks) : ~toks[j][1] } }

VARIABLES R, C, order
vars == <<R, C, order>>
Items == { <<"r", r[1], r[2]>> : r \in R } \cup { <<"c", c>> : c \in C }
Init == /\ R \in Small(AllRangesT, MaxR) /\ C \in Small(TxtWin, MaxC)
        /\ order \in Perms({ <<"r", r[1], r[2]>> : r \in R } \cup { <<"c", c>> : c \in C })
Next == UNCHANGED vars
Spec == Init /\ [][Next]_vars

RoundTrip == LET toks == Separate(WriteBody(order), 1) IN ReadRanges(toks) = R /\ ReadChars(toks) = C
=============================================================================
