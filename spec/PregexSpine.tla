------------------------------ MODULE PregexSpine ------------------------------
(***************************************************************************)
(* The builder state machine in its "spine" configuration: a focus         *)
(* expression to which every selected public operator is applied, the      *)
(* other operand (if any) drawn from a constant pool, on either side.      *)
(* One action per public builder call; the state after the call carries    *)
(* the surface term (the program that built the object), its intended      *)
(* value and the intended observable outcome of the call (layer E).        *)
(*                                                                         *)
(* Every argument of a surface term is a tuple whose first element is a    *)
(* tag string, so that terms stay comparable for TLC.                      *)
(*                                                                         *)
(* Parameters come from the generated module RunCfg:                       *)
(*   Wins     set of windows of code points <<c1, c2, c3>>                 *)
(*   MaxD     spine depth                                                  *)
(*   OpSel    set of operator families enabled                             *)
(*   PoolSel  set of pool families enabled                                 *)
(*   Quants   set of <<op, n, m, g>> quantifier calls                      *)
(*   Names    set of capture names used                                    *)
(***************************************************************************)
EXTENDS PregexEval, RunCfg

RECURSIVE IvOfSet(_)
IvOfSet(S) ==
  IF S = {} THEN <<>>
  ELSE LET lo == CHOOSE x \in S : \A y \in S : x <= y
           RECURSIVE Ext(_)
           Ext(h) == IF (h + 1) \in S THEN Ext(h + 1) ELSE h
           hi == Ext(lo)
       IN << <<lo, hi>> >> \o IvOfSet({x \in S : x > hi})

Str(s)  == <<"str", s>>
E(t, v) == [t |-> t, v |-> v]

VARIABLES win, cur, d, res
vars == <<win, cur, d, res>>

c1 == win[1]
c2 == win[2]
c3 == win[3]

(* ------------------------------- pool ---------------------------------- *)
LitLeaves ==
  { E(Str(<<c1>>), Lit(<<c1>>)), E(Str(<<c2>>), Lit(<<c2>>)),
    E(Str(<<c1, c2>>), Lit(<<c1, c2>>)), E(Str(<<c2, c1>>), Lit(<<c2, c1>>)) }
  \cup (IF "lit3" \in PoolSel THEN { E(Str(<<c1, c2, c3>>), Lit(<<c1, c2, c3>>)),
                                     E(Str(<<c3>>), Lit(<<c3>>)),
                                     E(Str(<<c2, c2>>), Lit(<<c2, c2>>)) } ELSE {})
PregexLeaves ==   \* Pregex(s) objects instead of bare str arguments
  IF "pregex" \in PoolSel THEN { E(<<"Pregex", <<c1>>>>, Lit(<<c1>>)), E(<<"Pregex", <<c1, c2>>>>, Lit(<<c1, c2>>)) } ELSE {}
EmptyLeaves ==
  IF "empty" \in PoolSel THEN { E(<<"Pregex", <<>>>>, Eps), E(Str(<<>>), Eps) } ELSE {}
ClassLeaves ==
  IF "class" \in PoolSel
  THEN { E(<<"AnyFrom", <<c1, c3>>>>, Cls(FALSE, IvOfSet({c1, c3}))),
         E(<<"AnyButFrom", <<c1>>>>, Cls(TRUE, IvOfSet({c1}))),
         E(<<"Any">>, AnyC),
         E(<<"AnyDigit">>, Cls(FALSE, << <<48, 57>> >>)) }
  ELSE {}
TokenLeaves ==
  IF "token" \in PoolSel THEN { E(<<"Token", "Newline">>, Lit(<<10>>)), E(<<"Token", "Dollar">>, Lit(<<36>>)),
                                E(<<"Token", "Backslash">>, Lit(<<92>>)) } ELSE {}
BoundaryLeaves ==
  IF "wb" \in PoolSel THEN { E(<<"WordBoundary">>, Wb), E(<<"NonWordBoundary">>, Nwb) } ELSE {}
BadLeaves ==
  IF "bad" \in PoolSel THEN { E(<<"badarg", "int">>, Bad("int")), E(<<"badarg", "none">>, Bad("none")),
                              E(<<"badarg", "list">>, Bad("list")) } ELSE {}

Leaves == LitLeaves \cup PregexLeaves \cup EmptyLeaves \cup ClassLeaves \cup TokenLeaves \cup BoundaryLeaves

A1 == E(Str(<<c1>>), Lit(<<c1>>))
A2 == E(Str(<<c2>>), Lit(<<c2>>))
A12 == E(Str(<<c1, c2>>), Lit(<<c1, c2>>))
Basic == {A1, A2, A12}

\* depth-1 expressions: one of every operator shape, over the basic literals
Derived ==
  (IF "alt" \in PoolSel THEN { E(<<"Either", <<"args", x.t, y.t>>>>, Alt(x.v, y.v)) : x \in Basic, y \in {A1, A12} } ELSE {})
  \cup (IF "cat" \in PoolSel THEN { E(<<"Concat", <<"args", x.t, y.t>>>>, Cat(x.v, y.v)) : x \in {A1}, y \in {A2} } ELSE {})
  \cup (IF "quant" \in PoolSel
        THEN { E(<<"Optional", x.t, TRUE>>, Rep(x.v, 0, 1, TRUE)) : x \in {A1, A12} }
             \cup { E(<<"OneOrMore", x.t, FALSE>>, Rep(x.v, 1, Inf, FALSE)) : x \in {A2} }
             \cup { E(<<"Exactly", x.t, <<"i", 2>>>>, Rep(x.v, 2, 2, TRUE)) : x \in {A1} }
        ELSE {})
  \cup (IF "group" \in PoolSel
        THEN { E(<<"Capture", x.t, <<"none">>>>, Cap(x.v, "")) : x \in {A1, A12} }
             \cup { E(<<"Group", x.t, FALSE>>, Grp(x.v, FALSE)) : x \in {A12} }
        ELSE {})
  \cup (IF "assert" \in PoolSel
        THEN { E(<<"Anchor", "bol", x.t>>, Anch("bol", x.v)) : x \in {A1} }
             \cup { E(<<"Anchor", "eol", x.t>>, Anch("eol", x.v)) : x \in {A2} }
             \cup { E(<<"Look", "ahead", TRUE, x.t, <<"args", y.t>>>>, Look("ahead", TRUE, x.v, y.v)) : x \in {A1}, y \in {A2} }
             \cup { E(<<"Look", "behind", FALSE, x.t, <<"args", y.t>>>>, Look("behind", FALSE, x.v, y.v)) : x \in {A1}, y \in {A2} }
        ELSE {})

Pool == Leaves \cup Derived \cup BadLeaves
Focus0 == IF "focusall" \in PoolSel THEN Leaves \cup Derived ELSE Leaves

(* ------------------------------- steps --------------------------------- *)
S(t, o, tg) == [t |-> t, o |-> o, tg |-> tg]
TagOf(y) == (IF IsEmpty(y.v) THEN {"emptyarg"} ELSE {}) \cup (IF y.t[1] = "str" THEN {"strarg"} ELSE {})
              \cup (IF IsBad(y.v) THEN {"badarg"} ELSE {})

BinOps(x) ==
  (IF "concat" \in OpSel
   THEN { S(<<"Concat", <<"args", x.t, y.t>>>>, EConcat(x.v, y.v), TagOf(y)) : y \in Pool }
        \cup { S(<<"Concat", <<"args", y.t, x.t>>>>, EConcat(y.v, x.v), TagOf(y)) : y \in Pool }
   ELSE {})
  \cup (IF "either" \in OpSel
   THEN { S(<<"Either", <<"args", x.t, y.t>>>>, EEither(x.v, y.v), TagOf(y)) : y \in {p \in Pool : ~EitherUnspecified(x.v, p.v)} }
        \cup { S(<<"Either", <<"args", y.t, x.t>>>>, EEither(y.v, x.v), TagOf(y)) : y \in {p \in Pool : ~EitherUnspecified(p.v, x.v)} }
   ELSE {})
  \cup (IF "enclose" \in OpSel
   THEN { S(<<"Enclose", <<"args", x.t, y.t>>>>, EEnclose(x.v, y.v), TagOf(y)) : y \in Pool }
        \cup { S(<<"Enclose", <<"args", y.t, x.t>>>>, EEnclose(y.v, x.v), TagOf(y)) : y \in Pool }
   ELSE {})

IA(n) == IF n = Inf THEN NoneA ELSE IntA(n)
TA(n) == IF n = Inf THEN <<"none">> ELSE <<"i", n>>
QuantOps(x) ==
  IF "quant" \notin OpSel THEN {}
  ELSE { (CASE q[1] = "Optional"   -> S(<<"Optional", x.t, q[4]>>, EOptional(x.v, q[4]), {})
            [] q[1] = "Indefinite" -> S(<<"Indefinite", x.t, q[4]>>, EIndefinite(x.v, q[4]), {})
            [] q[1] = "OneOrMore"  -> S(<<"OneOrMore", x.t, q[4]>>, EOneOrMore(x.v, q[4]), {})
            [] q[1] = "Exactly"    -> S(<<"Exactly", x.t, TA(q[2])>>, EExactly(x.v, IA(q[2])), {})
            [] q[1] = "Mul"        -> S(<<"Mul", x.t, TA(q[2])>>, EMul(x.v, IA(q[2])), {})
            [] q[1] = "AtLeast"    -> S(<<"AtLeast", x.t, TA(q[2]), q[4]>>, EAtLeast(x.v, IA(q[2]), q[4]), {})
            [] q[1] = "AtMost"     -> S(<<"AtMost", x.t, TA(q[3]), q[4]>>, EAtMost(x.v, IA(q[3]), q[4]), {})
            [] q[1] = "AtLeastAtMost" -> S(<<"AtLeastAtMost", x.t, TA(q[2]), TA(q[3]), q[4]>>,
                                           EAtLeastAtMost(x.v, IA(q[2]), IA(q[3]), q[4]), {})) : q \in Quants }

NT(nm) == IF nm = "" THEN <<"none">> ELSE <<"name", nm>>
NA(nm) == IF nm = "" THEN NoneA ELSE NameA(nm)
GroupOps(x) ==
  IF "group" \notin OpSel THEN {}
  ELSE { S(<<"Capture", x.t, NT(nm)>>, ECapture(x.v, NA(nm)), {}) : nm \in Names \cup {""} }
       \cup { S(<<"Group", x.t, ci>>, EGroup(x.v, ci), {}) : ci \in {b \in BOOLEAN : ~GroupUnspecified(x.v, b)} }

AnchorOps(x) ==
  IF "anchor" \notin OpSel THEN {}
  ELSE { S(<<"Anchor", kd, x.t>>, EAnchor(kd, x.v), {}) : kd \in {"bos", "eos", "bol", "eol"} }

LookKinds == {"ahead", "behind", "both"} \X BOOLEAN
LookOps(x) ==
  IF "look" \notin OpSel THEN {}
  ELSE { S(<<"Look", lk[1], lk[2], x.t, <<"args", y.t>>>>, ELookN(lk[1], lk[2], x.v, <<y.v>>), TagOf(y)) : lk \in LookKinds, y \in Pool }
       \cup { S(<<"Look", lk[1], lk[2], y.t, <<"args", x.t>>>>, ELookN(lk[1], lk[2], y.v, <<x.v>>), TagOf(y)) : lk \in LookKinds, y \in Pool }

Step(x) == BinOps(x) \cup QuantOps(x) \cup GroupOps(x) \cup AnchorOps(x) \cup LookOps(x)

(* ------------------------------ machine -------------------------------- *)

Expect(o, tg) ==
  [ok |-> o.ok, ex |-> o.ex,
   ref |-> IF o.ok THEN Ref(o.v) ELSE "",
   caps |-> IF o.ok THEN CapList(o.v) ELSE <<>>,
   semsafe |-> o.ok /\ SemSafe(o.v),
   refsdef |-> o.ok /\ RefsDefined(o.v),
   wf |-> o.ok /\ WF(o.v),
   nops |-> IF o.ok THEN Ops(o.v) ELSE 0,
   prec |-> o.ok /\ PrecSensitive(o.v),
   direct |-> o.ok /\ DirectAssertion(o.v),
   hasanch |-> o.ok /\ HasAnchorOrPosLook(o.v),
   tags |-> tg]

Init == /\ win \in Wins
        /\ cur \in Focus0
        /\ d = 0
        /\ res = Expect(OkO(cur.v), {})

Next == /\ d < MaxD
        /\ UNCHANGED win
        /\ \E s \in Step(cur) :
             /\ s.o.ok => NamesUnique(s.o.v)     \* duplicate group names: caller error, not generated
             /\ cur' = [t |-> s.t, v |-> s.o.v]
             /\ d' = IF s.o.ok THEN d + 1 ELSE MaxD
             /\ res' = Expect(s.o, s.tg)

Spec == Init /\ [][Next]_vars

(* --------------------- model-level invariants (layer E) ---------------- *)
\* an allowed result is always expressible as a pattern the engine accepts
OkIsWF == res.ok => res.wf
\* a step whose pool operand was an empty pattern never introduces structure
\* (checked as an action property below); outcome sets are never empty
OutcomeTotal == res.ok \/ res.ex # {}
\* C09 as a state invariant of layer E: a value that is directly an assertion
\* application is never the operand of an accepted repeating quantifier
RepeatRule ==
  (res.ok /\ cur.v.k = "rep" /\ (cur.v.m = Inf \/ cur.v.m > 1)) => ~DirectAssertion(cur.v.a)
\* C10: every accepted lookbehind has a fixed width
LookbehindRule ==
  (res.ok /\ cur.v.k = "look" /\ cur.v.dir # "ahead" /\ WKnown(cur.v.x)) => FixedWidth(cur.v.x)
\* C05, single step: an empty later operand is neutral (action property)
EmptyNeutralStep ==
  [][ ("emptyarg" \in res'.tags /\ res'.ok /\ cur'.t[1] \in {"Concat", "Enclose"} /\ cur'.t[2][2] = cur.t)
        => cur'.v = cur.v ]_vars
=============================================================================
