------------------------------ MODULE PregexSpine ------------------------------
(***************************************************************************)
(* The builder state machine in its "spine" configuration: a focus         *)
(* expression to which every selected public operator is applied, the      *)
(* other operand (if any) drawn from a constant pool, on either side.      *)
(* One action per public builder call; the state after the call carries    *)
(* the surface term (the program that built the object), its intended      *)
(* value and the intended observable outcome of the call (layer E).        *)
(*                                                                         *)
(* Every argument of a surface term is a tuple whose first element is a    *)
(* tag string, so that terms stay comparable for TLC.                      *)
(*                                                                         *)
(* Parameters come from the generated module RunCfg:                       *)
(*   Wins     set of windows of code points <<c1, c2, c3>>                 *)
(*   MaxD     spine depth                                                  *)
(*   OpSel    set of operator families enabled                             *)
(*   PoolSel  set of pool families enabled                                 *)
(*   Quants   set of <<op, n, m, g>> quantifier calls                      *)
(*   Names    set of capture names used                                    *)
(***************************************************************************)
EXTENDS PregexEval, PregexSem, ImplInfer, RunCfg

RECURSIVE IvOfSet(_)
IvOfSet(S) ==
  IF S = {} THEN <<>>
  ELSE LET lo == CHOOSE x \in S : \A y \in S : x <= y
           RECURSIVE Ext(_)
           Ext(h) == IF (h + 1) \in S THEN Ext(h + 1) ELSE h
           hi == Ext(lo)
       IN << <<lo, hi>> >> \o IvOfSet({x \in S : x > hi})

Str(s)  == <<"str", s>>
E(t, v) == [t |-> t, v |-> v]

VARIABLES win, cur, d, res
vars == <<win, cur, d, res>>

c1 == win[1]
c2 == win[2]
c3 == win[3]

(* ------------------------------- pool ---------------------------------- *)
StrLeaves == IF "strs" \in PoolSel THEN { E(Str(x), FromStr(x)) : x \in Strs } ELSE {}
PregexStrLeaves == IF "pregexstrs" \in PoolSel THEN { E(<<"Pregex", x>>, FromStr(x)) : x \in Strs } ELSE {}
LitLeaves ==
  IF "minpool" \in PoolSel THEN { E(Str(<<c1>>), Lit(<<c1>>)) } ELSE
  { E(Str(<<c1>>), Lit(<<c1>>)), E(Str(<<c2>>), Lit(<<c2>>)),
    E(Str(<<c1, c2>>), Lit(<<c1, c2>>)), E(Str(<<c2, c1>>), Lit(<<c2, c1>>)) }
  \cup (IF "lit3" \in PoolSel THEN { E(Str(<<c1, c2, c3>>), Lit(<<c1, c2, c3>>)),
                                     E(Str(<<c3>>), Lit(<<c3>>)),
                                     E(Str(<<c2, c2>>), Lit(<<c2, c2>>)) } ELSE {})
PregexLeaves ==   \* Pregex(s) objects instead of bare str arguments
  IF "pregex" \in PoolSel THEN { E(<<"Pregex", <<c1>>>>, Lit(<<c1>>)), E(<<"Pregex", <<c1, c2>>>>, Lit(<<c1, c2>>)) } ELSE {}
EmptyLeaves ==
  (IF "empty" \in PoolSel THEN { E(<<"Pregex", <<>>>>, Eps), E(Str(<<>>), Eps) } ELSE {})
  \cup (IF "emptyforms" \in PoolSel
        THEN { E(<<"Exactly", Str(<<c1>>), <<"i", 0>>>>, Eps), E(<<"Mul", Str(<<c1, c2>>), <<"i", 0>>>>, Eps),
               E(<<"AtMost", Str(<<c2>>), <<"i", 0>>, TRUE>>, Eps),
               E(<<"AtLeastAtMost", <<"AnyFrom", <<c1, c3>>>>, <<"i", 0>>, <<"i", 0>>, FALSE>>, Eps),
               E(<<"Concat", <<"args">>>>, Eps), E(<<"Either", <<"args">>>>, Eps),
               E(<<"Optional", <<"Pregex", <<>>>>, TRUE>>, Eps), E(<<"OneOrMore", Str(<<>>), TRUE>>, Eps),
               E(<<"Group", <<"Pregex", <<>>>>, FALSE>>, Eps), E(<<"Capture", Str(<<>>), <<"name", "n">>>>, Eps),
               E(<<"Concat", <<"args", Str(<<>>), <<"Pregex", <<>>>>>>>>, Eps),
               E(<<"Look", "ahead", TRUE, Str(<<>>), <<"args", <<"Pregex", <<>>>>>>>>, Eps),
               E(<<"Exactly", <<"Anchor", "bos", Str(<<c1>>)>>, <<"i", 0>>>>, Eps),
               E(<<"AtMost", <<"Look", "ahead", TRUE, Str(<<c1>>), <<"args", Str(<<c2>>)>>>>, <<"i", 0>>, FALSE>>, Eps),
               E(<<"Mul", <<"Anchor", "eol", Str(<<c1>>)>>, <<"i", 0>>>>, Eps) }
        ELSE {})
ClassLeaves ==
  IF "minpool" \in PoolSel THEN { E(<<"AnyDigit">>, Cls(FALSE, << <<48, 57>> >>)) } ELSE
  IF "class" \in PoolSel
  THEN { E(<<"AnyFrom", <<c1, c3>>>>, Cls(FALSE, IvOfSet({c1, c3}))),
         E(<<"AnyButFrom", <<c1>>>>, Cls(TRUE, IvOfSet({c1}))),
         E(<<"Any">>, AnyC),
         E(<<"AnyDigit">>, Cls(FALSE, << <<48, 57>> >>)) }
  ELSE {}
TokenLeaves ==
  IF "token" \in PoolSel THEN { E(<<"Token", "Newline">>, Lit(<<10>>)), E(<<"Token", "Dollar">>, Lit(<<36>>)),
                                E(<<"Token", "Backslash">>, Lit(<<92>>)) } ELSE {}
BoundaryLeaves ==
  IF "wb" \in PoolSel THEN { E(<<"WordBoundary">>, Wb), E(<<"NonWordBoundary">>, Nwb) } ELSE {}
BadLeaves ==
  IF "bad" \in PoolSel THEN { E(<<"badarg", "int">>, Bad("int")), E(<<"badarg", "none">>, Bad("none")),
                              E(<<"badarg", "list">>, Bad("list")) } ELSE {}

ParenLeaves ==   \* literals that look like group syntax
  IF "parens" \in PoolSel
  THEN { E(Str(<<40>>), Lit(<<40>>)), E(Str(<<41>>), Lit(<<41>>)), E(Str(<<40, 63, 58, c1, 41>>), Lit(<<40, 63, 58, c1, 41>>)),
         E(Str(<<40, 63, 80, 60, 120, 62, c1, 41>>), Lit(<<40, 63, 80, 60, 120, 62, c1, 41>>)),
         E(Str(<<40, c1, 41, 40, c1, 41>>), Lit(<<40, c1, 41, 40, c1, 41>>)),
         E(Str(<<58, c1>>), Lit(<<58, c1>>)), E(Str(<<58>>), Lit(<<58>>)), E(Str(<<63, c1>>), Lit(<<63, c1>>)) }
  ELSE {}
LookLeaves ==    \* lookarounds on the empty pattern and on a literal, conditionals, back-references
  IF "looks" \in PoolSel
  THEN { E(<<"Look", lk[1], lk[2], Str(<<>>), <<"args", Str(<<c1>>)>>>>, Look(lk[1], lk[2], Eps, Lit(<<c1>>))) : lk \in {"ahead", "behind", "both"} \X BOOLEAN }
       \cup { E(<<"Look", lk[1], lk[2], Str(<<c2>>), <<"args", Str(<<c1>>)>>>>, Look(lk[1], lk[2], Lit(<<c2>>), Lit(<<c1>>))) : lk \in {"ahead", "behind"} \X BOOLEAN }
       \cup { E(<<"Anchor", kd, Str(<<>>)>>, Anch(kd, Eps)) : kd \in {"bos", "eol"} }
  ELSE {}
RefLeaves ==
  IF "refs" \in PoolSel
  THEN { E(<<"Backreference", <<"i", 1>>>>, Bref(1, "")), E(<<"Backreference", <<"name", "n">>>>, Bref(0, "n")),
         E(<<"Conditional", <<"name", "n">>, Str(<<c1>>), Str(<<c2>>)>>, Cond("n", Lit(<<c1>>), Lit(<<c2>>), TRUE)),
         E(<<"Conditional", <<"name", "n">>, Str(<<c1>>)>>, Cond("n", Lit(<<c1>>), Eps, FALSE)) }
  ELSE {}

PoolLeaves == LitLeaves \cup PregexLeaves \cup EmptyLeaves \cup ClassLeaves \cup TokenLeaves \cup BoundaryLeaves
Leaves == StrLeaves \cup PregexStrLeaves \cup ParenLeaves \cup LookLeaves \cup RefLeaves \cup PoolLeaves

A1 == E(Str(<<c1>>), Lit(<<c1>>))
A2 == E(Str(<<c2>>), Lit(<<c2>>))
A12 == E(Str(<<c1, c2>>), Lit(<<c1, c2>>))
Basic == {A1, A2, A12}

\* depth-1 expressions: one of every operator shape, over the basic literals
Derived ==
  (IF "alt" \in PoolSel THEN { E(<<"Either", <<"args", x.t, y.t>>>>, Alt(x.v, y.v)) : x \in Basic, y \in {A1, A12} } ELSE {})
  \cup (IF "cat" \in PoolSel THEN { E(<<"Concat", <<"args", x.t, y.t>>>>, Cat(x.v, y.v)) : x \in {A1}, y \in {A2} } ELSE {})
  \cup (IF "quant" \in PoolSel
        THEN { E(<<"Optional", x.t, TRUE>>, Rep(x.v, 0, 1, TRUE)) : x \in {A1, A12} }
             \cup { E(<<"OneOrMore", x.t, FALSE>>, Rep(x.v, 1, Inf, FALSE)) : x \in {A2} }
             \cup { E(<<"Exactly", x.t, <<"i", 2>>>>, Rep(x.v, 2, 2, TRUE)) : x \in {A1} }
             \cup { E(<<"Indefinite", x.t, TRUE>>, Rep(x.v, 0, Inf, TRUE)) : x \in {A1, A2} }
             \cup { E(<<"AtLeastAtMost", x.t, <<"i", 1>>, <<"i", 2>>, FALSE>>, Rep(x.v, 1, 2, FALSE)) : x \in {A1} }
        ELSE {})
  \cup (IF "nested" \in PoolSel      \* a named capture / a flagged group inside a concatenation
        THEN { E(<<"Concat", <<"args", <<"Capture", A1.t, <<"name", "k">>>>, A2.t>>>>, Cat(Cap(A1.v, "k"), A2.v)),
               E(<<"Concat", <<"args", <<"Group", A1.t, TRUE>>, A2.t>>>>, Cat(Grp(A1.v, TRUE), A2.v)),
               E(<<"Concat", <<"args", A2.t, <<"Group", A1.t, FALSE>>>>>>, Cat(A2.v, Grp(A1.v, FALSE))),
               E(<<"Capture", <<"Concat", <<"args", <<"Capture", A1.t, <<"name", "k">>>>, A2.t>>>>, <<"name", "j">>>>, Cap(Cat(Cap(A1.v, "k"), A2.v), "j")),
               E(<<"Group", <<"Concat", <<"args", <<"Group", A1.t, TRUE>>, A2.t>>>>, FALSE>>, Grp(Cat(Grp(A1.v, TRUE), A2.v), FALSE)),
               E(<<"Group", <<"Concat", <<"args", <<"Capture", A1.t, <<"name", "k">>>>, A2.t>>>>, FALSE>>, Grp(Cat(Cap(A1.v, "k"), A2.v), FALSE)) }
        ELSE {})
  \cup (IF "group" \in PoolSel
        THEN { E(<<"Capture", x.t, <<"none">>>>, Cap(x.v, "")) : x \in {A1, A12} }
             \cup { E(<<"Group", x.t, FALSE>>, Grp(x.v, FALSE)) : x \in {A12} }
        ELSE {})
  \cup (IF "assert" \in PoolSel
        THEN { E(<<"Anchor", "bol", x.t>>, Anch("bol", x.v)) : x \in {A1} }
             \cup { E(<<"Anchor", "eol", x.t>>, Anch("eol", x.v)) : x \in {A2} }
             \cup { E(<<"Look", "ahead", TRUE, x.t, <<"args", y.t>>>>, Look("ahead", TRUE, x.v, y.v)) : x \in {A1}, y \in {A2} }
             \cup { E(<<"Look", "behind", FALSE, x.t, <<"args", y.t>>>>, Look("behind", FALSE, x.v, y.v)) : x \in {A1}, y \in {A2} }
        ELSE {})

Pool == PoolLeaves \cup Derived \cup BadLeaves
Focus0 == IF "focusall" \in PoolSel THEN Leaves \cup Derived ELSE Leaves

(* ------------------------------- steps --------------------------------- *)
S(t, o, tg) == [t |-> t, o |-> o, tg |-> tg]
TagOf(y) == (IF IsEmpty(y.v) THEN {"emptyarg"} ELSE {}) \cup (IF y.t[1] = "str" THEN {"strarg"} ELSE {})
              \cup (IF IsBad(y.v) THEN {"badarg"} ELSE {})

UnaryOps(x) ==   \* class forms with a single argument return that argument
  IF "unary" \notin OpSel THEN {}
  ELSE { S(<<o, <<"args", x.t>>>>, EOperatorN(o, <<x.v>>), {}) : o \in {"Concat", "Either", "Enclose"} }

BinOps(x) ==
  (IF "concat" \in OpSel
   THEN { S(<<"Concat", <<"args", x.t, y.t>>>>, EConcat(x.v, y.v), TagOf(y) \cup {"xfirst"}) : y \in Pool }
        \cup { S(<<"Concat", <<"args", y.t, x.t>>>>, EConcat(y.v, x.v), TagOf(y)) : y \in Pool }
   ELSE {})
  \cup (IF "either" \in OpSel
   THEN { S(<<"Either", <<"args", x.t, y.t>>>>, EEither(x.v, y.v), TagOf(y) \cup {"xfirst"}) : y \in {p \in Pool : ~EitherUnspecified(x.v, p.v)} }
        \cup { S(<<"Either", <<"args", y.t, x.t>>>>, EEither(y.v, x.v), TagOf(y)) : y \in {p \in Pool : ~EitherUnspecified(p.v, x.v)} }
   ELSE {})
  \cup (IF "enclose" \in OpSel
   THEN { S(<<"Enclose", <<"args", x.t, y.t>>>>, EEnclose(x.v, y.v), TagOf(y) \cup {"xfirst"}) : y \in Pool }
        \cup { S(<<"Enclose", <<"args", y.t, x.t>>>>, EEnclose(y.v, x.v), TagOf(y)) : y \in Pool }
   ELSE {})

\* bound codes in Quants: n >= 0 the integer; -1 None; -2 the integer -1; -3 True; -4 1.5; -5 a str; -6 False; -7 0.0; -8 1.0
IA(n) == CASE n >= 0 -> IntA(n) [] n = -1 -> NoneA [] n = -2 -> IntA(-1) [] n \in {-3, -6} -> BoolA [] n \in {-4, -7, -8} -> FloatA [] n = -5 -> StrA
TA(n) == CASE n >= 0 -> <<"i", n>> [] n = -1 -> <<"none">> [] n = -2 -> <<"i", -1>> [] n = -3 -> <<"bool">> [] n = -4 -> <<"float">>
           [] n = -5 -> <<"str">> [] n = -6 -> <<"boolf">> [] n = -7 -> <<"float0">> [] n = -8 -> <<"float1">>
QuantOps(x) ==
  IF "quant" \notin OpSel THEN {}
  ELSE { (CASE q[1] = "Optional"   -> S(<<"Optional", x.t, q[4]>>, EOptional(x.v, q[4]), {})
            [] q[1] = "Indefinite" -> S(<<"Indefinite", x.t, q[4]>>, EIndefinite(x.v, q[4]), {})
            [] q[1] = "OneOrMore"  -> S(<<"OneOrMore", x.t, q[4]>>, EOneOrMore(x.v, q[4]), {})
            [] q[1] = "Exactly"    -> S(<<"Exactly", x.t, TA(q[2])>>, EExactly(x.v, IA(q[2])), {})
            [] q[1] = "Mul"        -> S(<<"Mul", x.t, TA(q[2])>>, EMul(x.v, IA(q[2])), {})
            [] q[1] = "AtLeast"    -> S(<<"AtLeast", x.t, TA(q[2]), q[4]>>, EAtLeast(x.v, IA(q[2]), q[4]), {})
            [] q[1] = "AtMost"     -> S(<<"AtMost", x.t, TA(q[3]), q[4]>>, EAtMost(x.v, IA(q[3]), q[4]), {})
            [] q[1] = "AtLeastAtMost" -> S(<<"AtLeastAtMost", x.t, TA(q[2]), TA(q[3]), q[4]>>,
                                           EAtLeastAtMost(x.v, IA(q[2]), IA(q[3]), q[4]), {})) : q \in Quants }

NT(nm) == IF nm = "" THEN <<"none">> ELSE <<"name", nm>>
NA(nm) == IF nm = "" THEN NoneA ELSE NameA(nm)
GroupOps(x) ==
  IF "group" \notin OpSel THEN {}
  ELSE { S(<<"Capture", x.t, NT(nm)>>, ECapture(x.v, NA(nm)), {}) : nm \in Names \cup {""} }
       \cup (IF "badnames" \in OpSel THEN { S(<<"Capture", x.t, <<"badname">>>>, ECapture(x.v, BadNameA), {"badarg"}),
                                             S(<<"Capture", x.t, <<"badtype">>>>, ECapture(x.v, BadTypeA), {"badarg"}) } ELSE {})
       \cup { S(<<"Group", x.t, ci>>, EGroup(x.v, ci), {}) : ci \in {b \in BOOLEAN : ~GroupUnspecified(x.v, b)} }

AnchorOps(x) ==
  IF "anchor" \notin OpSel THEN {}
  ELSE { S(<<"Anchor", kd, x.t>>, EAnchor(kd, x.v), {}) : kd \in {"bos", "eos", "bol", "eol"} }

LookKinds == {"ahead", "behind", "both"} \X BOOLEAN
LookOps(x) ==
  IF "look" \notin OpSel THEN {}
  ELSE { S(<<"Look", lk[1], lk[2], x.t, <<"args", y.t>>>>, ELookN(lk[1], lk[2], x.v, <<y.v>>), TagOf(y) \cup {"xfirst"}) : lk \in LookKinds, y \in Pool }
       \cup { S(<<"Look", lk[1], lk[2], y.t, <<"args", x.t>>>>, ELookN(lk[1], lk[2], y.v, <<x.v>>), TagOf(y)) : lk \in LookKinds, y \in Pool }

\* Conditional(name, pre1[, pre2]) in a context that defines the group it tests
GT == <<"Optional", <<"Capture", Str(<<c1>>), <<"name", "g">>>>, TRUE>>
GV == Rep(Cap(Lit(<<c1>>), "g"), 0, 1, TRUE)
CondIn(t, o) == [t |-> <<"Concat", <<"args", GT, t>>>>,
                 o |-> IF o.ok THEN [EConcat(GV, o.v) EXCEPT !.ex = o.ex] ELSE o]
CondOps(x) ==
  IF "cond" \notin OpSel THEN {}
  ELSE { LET c == CondIn(<<"Conditional", <<"name", "g">>, x.t, y.t>>, EConditional(NameA("g"), x.v, y.v, TRUE)) IN S(c.t, c.o, TagOf(y) \ {"emptyarg"}) : y \in {p \in Pool : p.v # Bad("none")} }   \* pre2 = None means "no else branch"
       \cup { LET c == CondIn(<<"Conditional", <<"name", "g">>, y.t, x.t>>, EConditional(NameA("g"), y.v, x.v, TRUE)) IN S(c.t, c.o, TagOf(y) \ {"emptyarg"}) : y \in Pool }
       \cup { LET c == CondIn(<<"Conditional", <<"name", "g">>, x.t>>, EConditional(NameA("g"), x.v, Eps, FALSE)) IN S(c.t, c.o, {}) }
       \cup (IF "badnames" \in OpSel
             THEN { S(<<"Conditional", <<"badname">>, x.t>>, EConditional(BadNameA, x.v, Eps, FALSE), {"badarg"}),
                    S(<<"Conditional", <<"badtype">>, x.t>>, EConditional(BadTypeA, x.v, Eps, FALSE), {"badarg"}) }
             ELSE {})

Step(x) == CondOps(x) \cup UnaryOps(x) \cup BinOps(x) \cup QuantOps(x) \cup GroupOps(x) \cup AnchorOps(x) \cup LookOps(x)

(* ------------------------------ machine -------------------------------- *)

\* texts on which TLC evaluates the specification's own matcher (oracle calibration):
\* every sequence over the window characters up to SemLen, in a fixed order
RECURSIVE TextsOfLen(_)
TextsOfLen(n) == IF n = 0 THEN << <<>> >>
                 ELSE LET p == TextsOfLen(n - 1)
                          RECURSIVE ext(_)
                          ext(k) == IF k > Len(p) THEN <<>>
                                    ELSE << p[k] \o <<c1>>, p[k] \o <<c2>>, p[k] \o <<c3>> >> \o ext(k + 1)
                      IN ext(1)
RECURSIVE TextsUpTo(_)
TextsUpTo(n) == IF n = 0 THEN TextsOfLen(0) ELSE TextsUpTo(n - 1) \o TextsOfLen(n)
SemTab(v) == LET ts == TextsUpTo(SemLen) IN [k \in 1..Len(ts) |-> << ts[k], Find(v, ts[k]), Full(v, ts[k]) >>]

Expect(o, tg) ==
  [ok |-> o.ok, ex |-> o.ex,
   \* layer I (drift measurement only): the text and type the library's own design produces for this value
   emit |-> IF o.ok /\ ~HasClass(o.v) THEN Emit(o.v) ELSE <<-1>>,
   ty |-> IF o.ok THEN TypeOf(o.v) ELSE "",
   inf |-> IF o.ok THEN Infer(Emit(o.v)) ELSE IT("", TRUE),
   semtab |-> IF SemLen > 0 /\ o.ok /\ Calibratable(o.v) THEN SemTab(o.v) ELSE <<>>,
   ref |-> IF o.ok THEN Ref(o.v) ELSE "",
   caps |-> IF o.ok THEN CapList(o.v) ELSE <<>>,
   semsafe |-> o.ok /\ SemSafe(o.v),
   refsdef |-> o.ok /\ RefsDefined(o.v),
   wf |-> o.ok /\ WF(o.v),
   nops |-> IF o.ok THEN Ops(o.v) ELSE 0,
   prec |-> o.ok /\ PrecSensitive(o.v),
   direct |-> o.ok /\ DirectAssertion(o.v),
   hasanch |-> o.ok /\ HasAnchorOrPosLook(o.v),
   tags |-> tg]

Init == /\ win \in Wins
        /\ cur \in Focus0
        /\ d = 0
        /\ res = Expect(OkO(cur.v), {})

Next == /\ d < MaxD
        /\ UNCHANGED win
        /\ \E s \in Step(cur) :
             /\ s.o.ok => NamesUnique(s.o.v)     \* duplicate group names: caller error, not generated
             /\ cur' = [t |-> s.t, v |-> s.o.v]
             /\ d' = IF s.o.ok THEN d + 1 ELSE MaxD
             /\ res' = Expect(s.o, s.tg)

Spec == Init /\ [][Next]_vars

(* --------------------- model-level invariants (layer E) ---------------- *)
\* an allowed result is always expressible as a pattern the engine accepts
OkIsWF == res.ok => res.wf
\* a step whose pool operand was an empty pattern never introduces structure
\* (checked as an action property below); outcome sets are never empty
OutcomeTotal == res.ok \/ res.ex # {}
\* C09 as a state invariant of layer E: a value that is directly an assertion
\* application is never the operand of an accepted repeating quantifier
RepeatRule ==
  (res.ok /\ cur.v.k = "rep" /\ (cur.v.m = Inf \/ cur.v.m > 1)) => ~DirectAssertion(cur.v.a)
\* C10: every accepted lookbehind has a fixed width
LookbehindRule ==
  (res.ok /\ cur.v.k = "look" /\ cur.v.dir # "ahead" /\ WKnown(cur.v.x)) => FixedWidth(cur.v.x)
\* layer I refinement theorem: the grouping table never lets an operator bind to a fragment of an operand
PrecSafeInv == res.ok => PrecSafe(cur.v)
\* layer I, text level (ImplInfer): the type the library infers from the emitted text decides wrapping and repeatability
InferWrapSafe    == res.ok => InferWrapSafeV(cur.v)
InferWrapAgree   == res.ok => InferWrapAgreeV(cur.v)
InferRepeatSound == res.ok => InferRepeatSoundV(cur.v)
\* C05, single step: an empty later operand is neutral (action property)
EmptyNeutralStep ==
  [][ ("emptyarg" \in res'.tags /\ res'.ok) =>
        LET o == cur'.t[1]  xf == "xfirst" \in res'.tags IN
        CASE o = "Concat"            -> cur'.v = cur.v
          [] o = "Enclose" /\ xf     -> cur'.v = cur.v
          [] o = "Either" /\ xf      -> cur'.v = cur.v
          [] o = "Look" /\ xf        -> cur'.t[3] /\ cur'.v = cur.v
          [] OTHER                   -> TRUE ]_vars
\* a negative lookaround on an empty assertion pattern raises, whatever the match operand
EmptyNegRaises ==
  [][ ("emptyarg" \in res'.tags /\ "xfirst" \in res'.tags /\ cur'.t[1] = "Look" /\ ~cur'.t[3]
        /\ "badarg" \notin res'.tags)
        => (~res'.ok /\ res'.ex = {EmptyNegEx}) ]_vars
=============================================================================
