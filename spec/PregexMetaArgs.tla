---------------------------- MODULE PregexMetaArgs ----------------------------
(***************************************************************************)
(* The documented argument space of the constructors of                    *)
(* pregex.meta.essentials: valid values and every documented way of being  *)
(* invalid, with the intended outcome (a pattern, or the documented         *)
(* exception).  One initial state per call; no transitions.                 *)
(* Integer arguments are <<"i", n>> | <<"none">> | <<"float">> | <<"str">> | *)
(* <<"bool">> (a bool where an int is documented: both outcomes allowed,    *)
(* the documentation does not say).                                         *)
(***************************************************************************)
EXTENDS Naturals, Integers, Sequences, FiniteSets, TLC

TypeEx  == "InvalidArgumentTypeException"
ValueEx == "InvalidArgumentValueException"

IsI(a)   == a[1] = "i"
IsNone(a) == a[1] = "none"
IsBool(a) == a[1] = "bool"
BadType(a, noneOk) == ~IsI(a) /\ ~IsBool(a) /\ ~(noneOk /\ IsNone(a))

IntVals  == { <<"i", -1>>, <<"i", 0>>, <<"i", 1>>, <<"i", 2>>, <<"i", 5>>, <<"i", 17>>, <<"none">>, <<"float">>, <<"float1">>, <<"str">>, <<"bool">> }    \* float = 1.5, float1 = 1.0 (equal to the int 1, not an int)

\* outcome [ok, ex]: ok = returning a pattern is allowed; ex = allowed exceptions
O(ok, ex) == [ok |-> ok, ex |-> ex]
Both(es) == O(TRUE, es)

\* errors of a (min, max) pair where max may be None; lowest admissible value lo
RangeErrs(a, b, lo) ==
  (IF BadType(a, FALSE) \/ BadType(b, TRUE) THEN {TypeEx} ELSE {})
  \cup (IF (IsI(a) /\ a[2] < lo) \/ (IsI(b) /\ b[2] < lo) \/ (IsI(a) /\ IsI(b) /\ a[2] > b[2]) THEN {ValueEx} ELSE {})
HasBool(as) == \E i \in 1..Len(as) : IsBool(as[i])
\* a bool where an int is documented: the documentation does not say whether it is an int - any of the two
\* exceptions is allowed, and so is success when nothing else is wrong
Outcome(errs, as) == IF HasBool(as) THEN O(errs = {}, {TypeEx, ValueEx})
                     ELSE IF errs # {} THEN O(FALSE, errs)
                     ELSE O(TRUE, {})

IntFamily == {"Integer", "PositiveInteger", "NegativeInteger", "UnsignedInteger"}
DecFamily == {"Decimal", "PositiveDecimal", "NegativeDecimal", "UnsignedDecimal"}

\* Integer(start, end): both must be integers, 0 <= start <= end
IntCalls == { [ctor |-> c, args |-> <<a, b>>,
               out |-> Outcome((IF BadType(a, FALSE) \/ BadType(b, FALSE) THEN {TypeEx} ELSE {})
                               \cup (IF (IsI(a) /\ a[2] < 0) \/ (IsI(a) /\ IsI(b) /\ a[2] > b[2]) THEN {ValueEx} ELSE {}), <<a, b>>)] :
              c \in IntFamily, a \in IntVals \ {<<"bool">>}, b \in IntVals \ {<<"bool">>} }    \* bools: not generated
\* Decimal(0, 9, min_decimal, max_decimal)
DecCalls == { [ctor |-> c, args |-> <<a, b>>, out |-> Outcome(RangeErrs(a, b, 1), <<a, b>>)] :
              c \in DecFamily, a \in IntVals, b \in IntVals }
\* Numeral(base, n_min, n_max)
NumCalls == { [ctor |-> "Numeral", args |-> <<ba, a, b>>,
               out |-> Outcome((IF BadType(ba, FALSE) THEN {TypeEx} ELSE {})
                               \cup (IF IsI(ba) /\ (ba[2] < 2 \/ ba[2] > 16) THEN {ValueEx} ELSE {})
                               \cup RangeErrs(a, b, 0), <<ba, a, b>>)] :
              ba \in IntVals, a \in IntVals, b \in IntVals }
\* Word(min_chars, max_chars)
WordCalls == { [ctor |-> "Word", args |-> <<a, b>>, out |-> Outcome(RangeErrs(a, b, 1), <<a, b>>)] : a \in IntVals, b \in IntVals }
\* WordContains/StartsWith/EndsWith(affix): a str or a list of str
AffixArgs == { <<"strarg", "ab">>, <<"list", <<"a", "b">>>>, <<"badlist">>, <<"float">>, <<"none">> }
AffixCalls == { [ctor |-> c, args |-> <<a>>,
                 out |-> IF a[1] \in {"strarg", "list"} THEN O(TRUE, {}) ELSE O(FALSE, {TypeEx})] :
                c \in {"WordContains", "WordStartsWith", "WordEndsWith"}, a \in AffixArgs }
\* Date(formats): None, one documented format, a list of them; anything else raises InvalidArgumentValueException
DocFmt(f) == f \in {"dd/mm/yyyy", "d-m-yy", "yyyy/mm/dd", "m/d/yyyy", "yy-m-dd"}
DateArgs == { <<"none">>, <<"fmt", "dd/mm/yyyy">>, <<"fmt", "d-m-yy">>, <<"fmt", "yyyy/mm/dd">>, <<"fmt", "m/d/yyyy">>,
              <<"fmt", "yyyy/dd/mm">>, <<"fmt", "yy-d-mm">>, <<"fmt", "mm/yyyy/dd">>, <<"fmt", "dd.mm.yyyy">>, <<"fmt", "dd/mm-yyyy">>,
              <<"fmt", "d/m/y">>, <<"fmt", "ddd/mm/yyyy">>, <<"fmt", "">>, <<"fmt", "dd/mm">>, <<"fmt", "dd/mm/yyyy/">>,
              <<"fmts", <<"dd/mm/yyyy", "yy-m-dd">>>>, <<"fmts", <<"dd/mm/yyyy", "yy-d-mm">>>>, <<"fmts", <<"yyyy/dd/mm">>>>,
              <<"badlist">>, <<"fmtupper", "DD/MM/YYYY">> }
DateOut(a) ==
  CASE a[1] = "none" -> O(TRUE, {})
    [] a[1] = "fmt" -> IF DocFmt(a[2]) THEN O(TRUE, {}) ELSE O(FALSE, {ValueEx})
    [] a[1] = "fmts" -> IF \A i \in 1..Len(a[2]) : DocFmt(a[2][i]) THEN O(TRUE, {}) ELSE O(FALSE, {ValueEx})
    [] a[1] = "badlist" -> O(FALSE, {ValueEx})
    [] a[1] = "fmtupper" -> Both({ValueEx})                 \* upper-case variants: unspecified
DateCalls == { [ctor |-> "Date", args |-> <<a>>, out |-> DateOut(a)] : a \in DateArgs }

Calls == IntCalls \cup DecCalls \cup NumCalls \cup WordCalls \cup AffixCalls \cup DateCalls

VARIABLE call
Init == call \in Calls
Next == FALSE /\ UNCHANGED call
Spec == Init /\ [][Next]_call
\* every call has a non-empty outcome set
OutcomeTotal == call.out.ok \/ call.out.ex # {}
=============================================================================
