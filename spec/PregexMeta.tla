------------------------------ MODULE PregexMeta ------------------------------
(***************************************************************************)
(* The prebuilt patterns of pregex.meta.essentials as LANGUAGES: predicates *)
(* on code-point sequences written from the documentation, and a scanner    *)
(* for embedded occurrences with explicit "unspecified" verdicts where the  *)
(* documentation is silent (DESIGN appendix A).                             *)
(*                                                                         *)
(* State machine: a parameter record `par` (which constructor, with which   *)
(* arguments) chosen initially and a subject text built one character at a  *)
(* time; `res` is the intended observation of that constructor on that      *)
(* text: the exact-match verdict and the list of matched spans.             *)
(*                                                                         *)
(* RunCfg: Pars (set of parameter records, each with its own alphabet),     *)
(*         MaxLen, DateFmtLists, DateCands, DateExts                        *)
(***************************************************************************)
EXTENDS Naturals, Integers, Sequences, FiniteSets, TLC, RunCfg

IsDigit(c) == c >= 48 /\ c <= 57
IsLower(c) == c >= 97 /\ c <= 122
IsUpper(c) == c >= 65 /\ c <= 90
IsWordC(c) == IsDigit(c) \/ IsLower(c) \/ IsUpper(c) \/ c = 95
IsSign(c)  == c = 43 \/ c = 45
Plus  == 43
Minus == 45
Dot   == 46
Colon == 58

AllOf(s, P(_)) == \A i \in 1..Len(s) : P(s[i])
Canonical(s) == Len(s) >= 1 /\ AllOf(s, IsDigit) /\ (Len(s) = 1 \/ s[1] # 48)
\* numeric order on canonical digit strings, without arithmetic (no 32-bit overflow)
RECURSIVE LexLeq(_, _)
LexLeq(a, b) == IF a = <<>> THEN TRUE
                ELSE IF a[1] < b[1] THEN TRUE ELSE IF a[1] > b[1] THEN FALSE ELSE LexLeq(Tail(a), Tail(b))
NumLeq(a, b) == Len(a) < Len(b) \/ (Len(a) = Len(b) /\ LexLeq(a, b))
InRange(s, lo, hi) == Canonical(s) /\ NumLeq(lo, s) /\ NumLeq(s, hi)

At(t, i) == IF i >= 1 /\ i <= Len(t) THEN t[i] ELSE -1        \* -1: outside the text

(* ------------------------------ integers ------------------------------- *)
\* kinds: "Integer" (with par.sign), "PositiveInteger", "NegativeInteger", "UnsignedInteger"
SignsAllowed(par) ==
  CASE par.kind = "Integer" -> IF par.sign THEN {<<>>, <<Plus>>, <<Minus>>} ELSE {<<>>}
    [] par.kind = "PositiveInteger" -> {<<>>, <<Plus>>}
    [] par.kind = "NegativeInteger" -> {<<Minus>>}
    [] par.kind = "UnsignedInteger" -> {<<>>}
SplitSign(t) == IF t # <<>> /\ IsSign(t[1]) THEN << <<t[1]>>, Tail(t) >> ELSE << <<>>, t >>
IntExact(par, t) == SplitSign(t)[1] \in SignsAllowed(par) /\ InRange(SplitSign(t)[2], par.lo, par.hi)

\* maximal digit runs of a text as <<first, last>> (1-based, inclusive), left to right
RECURSIVE RunsFrom(_, _)
RunsFrom(t, i) ==
  IF i > Len(t) THEN <<>>
  ELSE IF ~IsDigit(t[i]) THEN RunsFrom(t, i + 1)
  ELSE LET RECURSIVE End(_)
           End(j) == IF j < Len(t) /\ IsDigit(t[j + 1]) THEN End(j + 1) ELSE j
           e == End(i)
       IN << <<i, e>> >> \o RunsFrom(t, e + 1)

\* the span (0-based, half-open) that the class matches for a digit run, or <<>> for "no match"
IntRunMatch(par, t, r) ==
  LET num   == SubSeq(t, r[1], r[2])
      prev  == At(t, r[1] - 1)
      prev2 == At(t, r[1] - 2)
      valid == InRange(num, par.lo, par.hi)
      bare  == << <<r[1] - 1, r[2]>> >>
      signed == << <<r[1] - 2, r[2]>> >>
  IN IF ~valid THEN <<>>
     ELSE CASE par.kind = "Integer" /\ ~par.sign -> bare
            [] par.kind = "Integer" /\ par.sign ->
                 (IF IsSign(prev) THEN (IF IsDigit(prev2) THEN <<>> ELSE signed) ELSE bare)
            [] par.kind = "PositiveInteger" ->
                 (IF prev = Minus THEN <<>>
                  ELSE IF prev = Plus THEN (IF IsDigit(prev2) THEN <<>> ELSE signed) ELSE bare)
            [] par.kind = "NegativeInteger" ->
                 (IF prev = Minus /\ ~IsDigit(prev2) THEN signed ELSE <<>>)
            [] par.kind = "UnsignedInteger" -> (IF IsSign(prev) THEN <<>> ELSE bare)
RECURSIVE IntMatchesOver(_, _, _, _)
IntMatchesOver(par, t, rs, i) ==
  IF i > Len(rs) THEN <<>> ELSE IntRunMatch(par, t, rs[i]) \o IntMatchesOver(par, t, rs, i + 1)
IntMatches(par, t) == IntMatchesOver(par, t, RunsFrom(t, 1), 1)
\* embedded verdicts are specified when no letter, underscore or dot is in the text
IntContextSpecified(t) == \A i \in 1..Len(t) : IsDigit(t[i]) \/ IsSign(t[i]) \/ t[i] \in {32, 10, 44, 59, 33}

(* ------------------------------ decimals ------------------------------- *)
\* kinds: "Decimal" (par.sign), "PositiveDecimal", "NegativeDecimal", "UnsignedDecimal"
IntKindOf(k) == CASE k = "Decimal" -> "Integer" [] k = "PositiveDecimal" -> "PositiveInteger"
                  [] k = "NegativeDecimal" -> "NegativeInteger" [] k = "UnsignedDecimal" -> "UnsignedInteger"
DotPos(t) == {i \in 1..Len(t) : t[i] = Dot}
NoIntPartSigns(par) ==
  CASE par.kind = "Decimal" -> IF par.sign THEN {<<>>, <<Plus>>, <<Minus>>} ELSE {<<>>}
    [] par.kind = "PositiveDecimal" -> {<<>>, <<Plus>>}
    [] par.kind = "NegativeDecimal" -> {<<Minus>>}
    [] par.kind = "UnsignedDecimal" -> {<<>>}
DecExact(par, t) ==
  /\ Cardinality(DotPos(t)) = 1
  /\ LET d  == CHOOSE i \in DotPos(t) : TRUE
         ip == SubSeq(t, 1, d - 1)
         fr == SubSeq(t, d + 1, Len(t))
     IN /\ AllOf(fr, IsDigit) /\ Len(fr) >= par.dmin /\ (par.dmax = -1 \/ Len(fr) <= par.dmax)
        /\ \/ IntExact([par EXCEPT !.kind = IntKindOf(par.kind)], ip)
           \/ (par.lo = <<48>> /\ ip \in NoIntPartSigns(par))

(* ------------------------- numerals and words -------------------------- *)
DigitVal(c) == IF IsDigit(c) THEN c - 48 ELSE IF c >= 97 /\ c <= 102 THEN c - 87 ELSE IF c >= 65 /\ c <= 70 THEN c - 55 ELSE 99
IsBaseDigit(c, b) == DigitVal(c) < b
LenOK(n, lo, hi) == n >= lo /\ (hi = -1 \/ n <= hi)
NumeralExact(par, t) == (\A i \in 1..Len(t) : IsBaseDigit(t[i], par.base)) /\ LenOK(Len(t), par.nmin, par.nmax)

\* maximal runs of word characters
RECURSIVE WordRunsFrom(_, _)
WordRunsFrom(t, i) ==
  IF i > Len(t) THEN <<>>
  ELSE IF ~IsWordC(t[i]) THEN WordRunsFrom(t, i + 1)
  ELSE LET RECURSIVE End(_)
           End(j) == IF j < Len(t) /\ IsWordC(t[j + 1]) THEN End(j + 1) ELSE j
           e == End(i)
       IN << <<i, e>> >> \o WordRunsFrom(t, e + 1)
IsInfix(a, w)  == \E i \in 0..(Len(w) - Len(a)) : SubSeq(w, i + 1, i + Len(a)) = a
IsPrefix(a, w) == Len(a) <= Len(w) /\ SubSeq(w, 1, Len(a)) = a
IsSuffix(a, w) == Len(a) <= Len(w) /\ SubSeq(w, Len(w) - Len(a) + 1, Len(w)) = a
WordOK(par, w) ==
  CASE par.kind = "Word"           -> LenOK(Len(w), par.nmin, par.nmax)
    [] par.kind = "Numeral"        -> NumeralExact(par, w)
    [] par.kind = "WordContains"   -> \E a \in par.affixes : IsInfix(a, w)
    [] par.kind = "WordStartsWith" -> \E a \in par.affixes : IsPrefix(a, w)
    [] par.kind = "WordEndsWith"   -> \E a \in par.affixes : IsSuffix(a, w)
RECURSIVE WordMatchesOver(_, _, _, _)
WordMatchesOver(par, t, rs, i) ==
  IF i > Len(rs) THEN <<>>
  ELSE (IF WordOK(par, SubSeq(t, rs[i][1], rs[i][2])) THEN << <<rs[i][1] - 1, rs[i][2]>> >> ELSE <<>>)
       \o WordMatchesOver(par, t, rs, i + 1)
WordMatches(par, t) == WordMatchesOver(par, t, WordRunsFrom(t, 1), 1)
\* a text is one word of the class iff it is a single maximal run that satisfies the predicate
WordExact(par, t) == t # <<>> /\ AllOf(t, IsWordC) /\ WordOK(par, t)
\* extensible affix patterns: pure literalness of the affix, word characters around it
AffixExact(par, t) ==
  \E a \in par.affixes :
    CASE par.kind = "WordContains"   -> \E i \in 0..(Len(t) - Len(a)) :
                                           /\ SubSeq(t, i + 1, i + Len(a)) = a
                                           /\ AllOf(SubSeq(t, 1, i), IsWordC) /\ AllOf(SubSeq(t, i + Len(a) + 1, Len(t)), IsWordC)
      [] par.kind = "WordStartsWith" -> IsPrefix(a, t) /\ AllOf(SubSeq(t, Len(a) + 1, Len(t)), IsWordC)
      [] par.kind = "WordEndsWith"   -> IsSuffix(a, t) /\ AllOf(SubSeq(t, 1, Len(t) - Len(a)), IsWordC)

(* -------------------------------- dates -------------------------------- *)
TwoDigit(s, lo, hi) == Len(s) = 2 /\ AllOf(s, IsDigit) /\ LET v == (s[1] - 48) * 10 + (s[2] - 48) IN v >= lo /\ v <= hi
FieldOK(f, s) ==
  CASE f = "d"    -> Len(s) = 1 /\ s[1] >= 49 /\ s[1] <= 57
    [] f = "dd"   -> TwoDigit(s, 1, 31)
    [] f = "m"    -> Len(s) = 1 /\ s[1] >= 49 /\ s[1] <= 57
    [] f = "mm"   -> TwoDigit(s, 1, 12)
    [] f = "yy"   -> Len(s) = 2 /\ AllOf(s, IsDigit)
    [] f = "yyyy" -> Len(s) = 4 /\ AllOf(s, IsDigit)
\* a format is <<f1, f2, f3, sep>>; a candidate is three field texts and two separator characters
DateOK(fmt, c) == /\ c.s1 = fmt[4] /\ c.s2 = fmt[4]
                  /\ FieldOK(fmt[1], c.p1) /\ FieldOK(fmt[2], c.p2) /\ FieldOK(fmt[3], c.p3)
DateText(c) == c.p1 \o <<c.s1>> \o c.p2 \o <<c.s2>> \o c.p3

(* ----------------------------- IP addresses ---------------------------- *)
RECURSIVE SplitOn(_, _)
SplitOn(t, sep) ==      \* the pieces of t between occurrences of sep (at least one piece)
  LET ps == {i \in 1..Len(t) : t[i] = sep} IN
  IF ps = {} THEN <<t>>
  ELSE LET p == CHOOSE i \in ps : \A j \in ps : i <= j
       IN <<SubSeq(t, 1, p - 1)>> \o SplitOn(SubSeq(t, p + 1, Len(t)), sep)
OctetOK(s) == Canonical(s) /\ Len(s) <= 3 /\ NumLeq(s, <<50, 53, 53>>)
IsIPv4(t) == LET ps == SplitOn(t, Dot) IN Len(ps) = 4 /\ \A i \in 1..4 : OctetOK(ps[i])
IsHex(c) == DigitVal(c) < 16
HexGroup(s) == Len(s) >= 1 /\ Len(s) <= 4 /\ AllOf(s, IsHex)
\* RFC 4291 text form without zone ids or embedded IPv4: eight groups, or one "::" standing for >= 1 groups
DoubleColonAt(t) == {i \in 1..(Len(t) - 1) : t[i] = Colon /\ t[i + 1] = Colon}
GroupsOK(s) == \* a possibly empty colon-separated list of hex groups; returns the number of groups or -1
  IF s = <<>> THEN 0
  ELSE LET ps == SplitOn(s, Colon) IN IF \A i \in 1..Len(ps) : HexGroup(ps[i]) THEN Len(ps) ELSE -1
IsIPv6(t) ==
  LET dc == DoubleColonAt(t) IN
  IF dc = {} THEN GroupsOK(t) = 8
  ELSE /\ Cardinality(dc) = 1
       /\ LET p == CHOOSE i \in dc : TRUE
              l == GroupsOK(SubSeq(t, 1, p - 1))
              r == GroupsOK(SubSeq(t, p + 2, Len(t)))
          IN l >= 0 /\ r >= 0 /\ l + r <= 7

(* ------------------------------- machine -------------------------------- *)
VARIABLES par, txt, res
vars == <<par, txt, res>>

IntKinds  == {"Integer", "PositiveInteger", "NegativeInteger", "UnsignedInteger"}
DecKinds  == {"Decimal", "PositiveDecimal", "NegativeDecimal", "UnsignedDecimal"}
WordKinds == {"Word", "Numeral", "WordContains", "WordStartsWith", "WordEndsWith"}

Yes == "yes"
No  == "no"
Unspecified == "unspecified"
B2V(b) == IF b THEN Yes ELSE No

\* extensible forms of the classes with an optional sign: whether the sign stays optional is not documented
SignUnspecified(p, t) ==
  p.ext /\ (p.kind \in {"PositiveInteger", "PositiveDecimal"} \/ (p.kind \in {"Integer", "Decimal"} /\ p.sign))
        /\ ~(t # <<>> /\ IsSign(t[1]))

\* intended observation: exact-match verdict, list of matched spans, whether that list is specified
Expect(p, t) ==
  CASE p.kind \in IntKinds ->
         [exact |-> IF SignUnspecified(p, t) THEN Unspecified ELSE B2V(IntExact(p, t)),
          mspec |-> ~p.ext /\ IntContextSpecified(t), matches |-> IF p.ext THEN <<>> ELSE IntMatches(p, t)]
    [] p.kind \in DecKinds ->
         [exact |-> IF SignUnspecified(p, t) THEN Unspecified ELSE B2V(DecExact(p, t)), mspec |-> FALSE, matches |-> <<>>]
    [] p.kind \in WordKinds /\ ~p.ext ->
         [exact |-> IF p.kind = "Numeral" /\ p.nmin = 0 /\ t = <<>> THEN Unspecified ELSE B2V(WordExact(p, t)),
          mspec |-> ~(p.kind = "Numeral" /\ p.nmin = 0),     \* n_min = 0 also admits empty matches: unspecified
          matches |-> WordMatches(p, t)]
    [] p.kind = "Numeral" /\ p.ext ->
         [exact |-> IF p.nmin = 0 /\ t = <<>> THEN Unspecified ELSE B2V(NumeralExact(p, t)), mspec |-> FALSE, matches |-> <<>>]
    [] p.kind = "Word" /\ p.ext ->
         [exact |-> B2V(t # <<>> /\ AllOf(t, IsWordC) /\ LenOK(Len(t), p.nmin, p.nmax)), mspec |-> FALSE, matches |-> <<>>]
    [] p.kind \in {"WordContains", "WordStartsWith", "WordEndsWith"} /\ p.ext ->
         [exact |-> B2V(AffixExact(p, t)), mspec |-> FALSE, matches |-> <<>>]
    \* Text / Whitespace / NonWhitespace (outside the listed properties; part of the specification's growth)
    [] p.kind \in {"Text", "Whitespace", "NonWhitespace"} ->
         LET isws(c) == c \in {9, 10, 11, 12, 13, 32}
             ok == CASE p.kind = "Text" -> TRUE
                     [] p.kind = "Whitespace" -> AllOf(t, isws)
                     [] p.kind = "NonWhitespace" -> \A i \in 1..Len(t) : ~isws(t[i])
         IN [exact |-> B2V(ok /\ (p.ext \/ t # <<>>)), mspec |-> FALSE, matches |-> <<>>]      \* ext stands for is_optional here
    [] p.kind = "IPv4" -> [exact |-> B2V(IsIPv4(t)), mspec |-> FALSE, matches |-> <<>>]
    [] p.kind = "IPv6" -> [exact |-> B2V(IsIPv6(t)), mspec |-> FALSE, matches |-> <<>>]
    [] p.kind = "IPctx" ->      \* an address embedded between a left and a right context (is_extensible = FALSE)
         LET glue(c) == IsDigit(c) \/ c = (IF p.v6 THEN Colon ELSE Dot)
             l == IF p.l = <<>> THEN -1 ELSE p.l[Len(p.l)]
             r == IF p.r = <<>> THEN -1 ELSE p.r[1]
             letter(c) == c # -1 /\ IsWordC(c) /\ ~IsDigit(c)
             sep == IF p.v6 THEN Colon ELSE Dot
             seps == {i \in 1..Len(p.addr) : p.addr[i] = sep}
             firstLen == (CHOOSE i \in seps : \A j \in seps : i <= j) - 1
             lastLen == Len(p.addr) - (CHOOSE i \in seps : \A j \in seps : i >= j)
             full == IF p.v6 THEN 4 ELSE 3
         IN [exact |-> Unspecified,
             \* a digit glued to a group that is not of maximal length forms another address: not judged
             mspec |-> /\ ~letter(l) /\ ~letter(r) /\ (p.v6 => (l # Dot /\ r # Dot))
                       /\ (IsDigit(l) => firstLen = full) /\ (IsDigit(r) => lastLen = full)
                       \* a part of the address that follows one of its own hex letters is "next to a letter": not judged
                       /\ ((glue(l) \/ glue(r)) => \A i \in 1..Len(p.addr) : ~IsWordC(p.addr[i]) \/ IsDigit(p.addr[i])),
             matches |-> IF glue(l) \/ glue(r) THEN <<>> ELSE << <<Len(p.l), Len(p.l) + Len(p.addr)>> >>]
    [] p.kind = "DecCtx" ->     \* an exactly matching decimal between neutral contexts is matched as a whole
         [exact |-> Unspecified, mspec |-> TRUE, matches |-> << <<Len(p.l), Len(p.l) + Len(p.mid)>> >>]
    [] p.kind = "Date" -> [exact |-> B2V(\E i \in 1..Len(p.fmts) : DateOK(p.fmts[i], p.cand)), mspec |-> FALSE, matches |-> <<>>]

TextPars == Pars
\* date parameters: every selected format list x every candidate (three field texts, two separators)
DatePars == { [kind |-> "Date", ext |-> e, fmts |-> f, cand |-> c] : e \in DateExts, f \in DateFmtLists, c \in DateCands }

IPCtxPars == { [kind |-> "IPctx", ext |-> FALSE, v6 |-> a[1], addr |-> a[2], l |-> l, r |-> r] : a \in IPAddrs, l \in IPCtxs, r \in IPCtxs }
DecCtxPars == { q \in { [kind |-> "DecCtx", ext |-> FALSE, base |-> p, mid |-> m, l |-> l, r |-> r] :
                           p \in DecBasePars, m \in DecMids, l \in DecCtxs, r \in DecCtxs } : DecExact(q.base, q.mid) }
\* par.seeds: texts given with the parameters (long candidates beyond MaxLen: many-digit numerals, long words, long fractions)
Init == \/ /\ par \in TextPars /\ txt \in ({<<>>} \cup par.seeds) /\ res = Expect(par, txt)
        \/ /\ par \in DecCtxPars /\ txt = par.l \o par.mid \o par.r /\ res = Expect(par, par.l \o par.mid \o par.r)
        \/ /\ par \in IPCtxPars /\ txt = par.l \o par.addr \o par.r /\ res = Expect(par, par.l \o par.addr \o par.r)
        \/ /\ par \in DatePars /\ txt = DateText(par.cand) /\ res = Expect(par, DateText(par.cand))

Next == /\ par.kind \notin {"Date", "IPctx", "DecCtx"}
        /\ Len(txt) < MaxLen
        /\ \E c \in par.alpha : /\ txt' = Append(txt, c)
                                /\ res' = Expect(par, Append(txt, c))
        /\ UNCHANGED par

Spec == Init /\ [][Next]_vars

(* ------------- self-consistency theorems of the specification ---------- *)
\* an exactly matching numeral is also the single embedded match of itself (integers, no sign needed)
ExactImpliesEmbedded ==
  (par.kind \in IntKinds /\ ~par.ext /\ res.mspec /\ res.exact = Yes) => res.matches = << <<0, Len(txt)>> >>
\* matched spans are ordered, disjoint and inside the text
SpansOrdered ==
  /\ \A i \in 1..Len(res.matches) : 0 <= res.matches[i][1] /\ res.matches[i][1] < res.matches[i][2] /\ res.matches[i][2] <= Len(txt)
  /\ \A i \in 1..(Len(res.matches) - 1) : res.matches[i][2] <= res.matches[i + 1][1]
\* the accepted integer language of [lo, hi] is the union of the languages of [lo, k] and [k+1, hi] (checked for k = 9, 99)
RangeSplit ==
  (par.kind \in IntKinds /\ NumLeq(par.lo, <<57>>) /\ NumLeq(<<49, 48>>, par.hi)) =>
     (IntExact(par, txt) = (IntExact([par EXCEPT !.hi = <<57>>], txt) \/ IntExact([par EXCEPT !.lo = <<49, 48>>], txt)))
\* IPv4 and IPv6 are disjoint languages and never contain a character outside their alphabets
IPDisjoint == par.kind \in {"IPv4", "IPv6"} => ~(IsIPv4(txt) /\ IsIPv6(txt))
=============================================================================
