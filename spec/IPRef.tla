-------------------------------- MODULE IPRef --------------------------------
(***************************************************************************)
(* Reference automata for the textual IPv4 and IPv6 address languages.     *)
(* RefStep is a deterministic transition function on small records; Dead   *)
(* is the sink.  MC_IPRef checks on all short strings that these automata  *)
(* accept exactly the declarative predicates IsIPv4 / IsIPv6 of PregexMeta. *)
(***************************************************************************)
EXTENDS Naturals, Integers, Sequences, FiniteSets, TLC

Dead == [k |-> "dead"]
IsDig(c) == c >= 48 /\ c <= 57
IsHexC(c) == IsDig(c) \/ (c >= 97 /\ c <= 102) \/ (c >= 65 /\ c <= 70)

\* ---- IPv4: k completed octets, cur = digits of the current octet
V4Init == [k |-> "v4", n |-> 0, cur |-> <<>>]
OctVal(s) == IF Len(s) = 1 THEN s[1] - 48 ELSE IF Len(s) = 2 THEN (s[1] - 48) * 10 + (s[2] - 48)
             ELSE (s[1] - 48) * 100 + (s[2] - 48) * 10 + (s[3] - 48)
OctOK(s) == Len(s) >= 1 /\ Len(s) <= 3 /\ (Len(s) = 1 \/ s[1] # 48) /\ OctVal(s) <= 255
V4Step(s, c) ==
  IF IsDig(c) THEN (IF Len(s.cur) < 3 /\ OctOK(Append(s.cur, c)) THEN [s EXCEPT !.cur = Append(s.cur, c)] ELSE Dead)
  ELSE IF c = 46 THEN (IF OctOK(s.cur) /\ s.n < 3 THEN [s EXCEPT !.n = s.n + 1, !.cur = <<>>] ELSE Dead)
  ELSE Dead
V4Accept(s) == s.k = "v4" /\ s.n = 3 /\ OctOK(s.cur)

\* ---- IPv6: g completed groups, cur hex digits in the current group, dc = "::" seen,
\*      pend: "none" | "colon" (a single ':' after a group) | "lead" (a ':' at the very start) | "dc" (just after "::")
V6Init == [k |-> "v6", g |-> 0, cur |-> 0, dc |-> FALSE, pend |-> "start"]
V6Step(s, c) ==
  IF IsHexC(c) THEN
       (IF s.pend = "lead" THEN Dead
        ELSE IF s.cur < 4 /\ s.g + 1 <= (IF s.dc THEN 7 ELSE 8) THEN [s EXCEPT !.cur = s.cur + 1, !.pend = "none"] ELSE Dead)
  ELSE IF c = 58 THEN
       (IF s.cur > 0 THEN [s EXCEPT !.g = s.g + 1, !.cur = 0, !.pend = "colon"]
        ELSE IF s.pend = "start" THEN [s EXCEPT !.pend = "lead"]
        ELSE IF s.pend \in {"colon", "lead"} /\ ~s.dc THEN [s EXCEPT !.dc = TRUE, !.pend = "dc"]
        ELSE Dead)
  ELSE Dead
V6Accept(s) ==
  /\ s.k = "v6"
  /\ IF s.dc THEN (s.cur > 0 /\ s.g + 1 <= 7) \/ (s.cur = 0 /\ s.pend = "dc" /\ s.g <= 7)
     ELSE s.cur > 0 /\ s.g = 7

RefStep(s, c) == IF s.k = "dead" THEN Dead ELSE IF s.k = "v4" THEN V4Step(s, c) ELSE V6Step(s, c)
RefAccept(s)  == IF s.k = "dead" THEN FALSE ELSE IF s.k = "v4" THEN V4Accept(s) ELSE V6Accept(s)
RECURSIVE RefRun(_, _)
RefRun(s, t) == IF t = <<>> THEN s ELSE RefRun(RefStep(s, Head(t)), Tail(t))
=============================================================================
