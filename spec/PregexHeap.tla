------------------------------ MODULE PregexHeap ------------------------------
(***************************************************************************)
(* Pregex objects as immutable values (C20): a heap of objects built from   *)
(* each other by method calls, with sharing (the same object used as an     *)
(* operand several times), aliasing through the documented "returns itself" *)
(* shortcuts, and compile()/matching calls interleaved.                     *)
(*                                                                         *)
(*   heap   sequence of objects [v, ref, ident]: intended value, its        *)
(*          reference text, identity (two handles with the same ident are   *)
(*          the same Python object)                                         *)
(*   hist   the calls so far (history variable, replayed into the library)  *)
(*   cached set of identities whose instance cache is filled                *)
(*                                                                         *)
(* No action ever changes an existing heap cell (HeapImmutable), and the    *)
(* value of a new object is a function of the operand VALUES only.          *)
(* RunCfg: HLeaves (set of leaf names), HOps (set of operator names),       *)
(*         MaxHeap, MaxLen                                                  *)
(***************************************************************************)
EXTENDS PregexEval, CharSet, RunCfg

VARIABLES heap, hist, cached
vars == <<heap, hist, cached>>

A == 97
B == 98
LeafV(n) ==
  CASE n = "a"      -> Lit(<<A>>)
    [] n = "ab"     -> Lit(<<A, B>>)
    [] n = "empty"  -> Eps
    [] n = "dollar" -> Lit(<<A, 36>>)
    [] n = "from"   -> Cls(FALSE, << <<A, A>>, <<99, 99>> >>)
    [] n = "between" -> Cls(FALSE, << <<A, 99>> >>)
    [] n = "aei"    -> Cls(FALSE, << <<A, A>>, <<101, 101>>, <<105, 105>> >>)      \* AnyFrom('a', 'e', 'i')
    [] n = "ce"     -> Cls(FALSE, << <<99, 99>>, <<101, 101>> >>)                   \* AnyFrom('c', 'e')
    [] n = "grp_ci" -> Grp(Lit(<<A, B>>), TRUE)                                     \* Group('ab', is_case_insensitive=True)
    [] n = "bos"    -> Anch("bos", Lit(<<A>>))                                      \* MatchAtStart('a')
    [] n = "alt"    -> Alt(Lit(<<A>>), Lit(<<B, A>>))
    [] n = "anchor" -> Anch("bol", Lit(<<A>>))
    [] n = "altdup" -> Alt(Alt(Alt(Lit(<<A, B>>), Lit(<<A>>)), Lit(<<A, B, 99>>)), Lit(<<A, B>>))   \* Either('ab','a','abc','ab')

\* cls: the Python object is an instance of a class of classes.py (only those support | and ~)
Obj(v, id, c) == [v |-> v, ref |-> Ref(v), ident |-> id, cls |-> c]
Fresh == Len(heap) + 1

\* outcome of a method call: [o |-> outcome, self |-> "the call returns its receiver"]
Call(op, x, y, n) ==
  CASE op = "concat"       -> [o |-> EConcat(x, y), self |-> IsEmpty(y)]
    [] op = "add"          -> [o |-> EConcat(x, y), self |-> FALSE]
    [] op = "either"       -> [o |-> EEither(x, y), self |-> FALSE]
    [] op = "enclose"      -> [o |-> EEnclose(x, y), self |-> FALSE]
    [] op = "optional"     -> [o |-> EOptional(x, TRUE), self |-> IsEmpty(x)]
    [] op = "one_or_more"  -> [o |-> EOneOrMore(x, FALSE), self |-> IsEmpty(x)]
    [] op = "exactly"      -> [o |-> EExactly(x, IntA(n)), self |-> n = 1 \/ (n > 1 /\ IsEmpty(x))]
    [] op = "mul"          -> [o |-> EMul(x, IntA(n)), self |-> FALSE]
    [] op = "at_most"      -> [o |-> EAtMost(x, IntA(n), TRUE), self |-> n > 0 /\ IsEmpty(x)]
    [] op = "capture"      -> [o |-> ECapture(x, NoneA), self |-> IsEmpty(x)]
    [] op = "capture_n"    -> [o |-> ECapture(x, NameA("n")), self |-> IsEmpty(x)]
    [] op = "capture_m"    -> [o |-> ECapture(x, NameA("m")), self |-> IsEmpty(x)]
    [] op = "group"        -> [o |-> EGroup(x, FALSE), self |-> IsEmpty(x)]
    [] op = "group_ci"     -> [o |-> IF GroupUnspecified(x, TRUE) THEN RaiseO("n/a") ELSE EGroup(x, TRUE), self |-> IsEmpty(x)]
    [] op = "followed_by"  -> [o |-> ELook("ahead", TRUE, x, y), self |-> IsEmpty(y)]
    [] op = "not_preceded_by" -> [o |-> ELook("behind", FALSE, x, y), self |-> FALSE]
    [] op = "match_at_line_start" -> [o |-> EAnchor("bol", x), self |-> FALSE]
    [] op = "or"           -> [o |-> IF x.k = "cls" /\ y.k = "cls" /\ x.neg = y.neg
                                     THEN OkO(Cls(x.neg, Union(x.iv, y.iv))) ELSE RaiseO("CannotBeUnionedException"),
                               self |-> FALSE]
    [] op = "sub"          -> [o |-> IF ~(x.k = "cls" /\ y.k = "cls" /\ x.neg = y.neg) THEN RaiseO("CannotBeSubtractedException")
                                     ELSE IF Diff(x.iv, y.iv) # <<>> THEN OkO(Cls(x.neg, Diff(x.iv, y.iv)))
                                     ELSE RaiseO("EmptyClassException"),
                               self |-> FALSE]
    [] op = "invert"       -> [o |-> IF x.k = "cls" THEN OkO(Cls(~x.neg, x.iv)) ELSE RaiseO("n/a"), self |-> FALSE]

Unary  == {"optional", "one_or_more", "capture", "capture_n", "capture_m", "group", "group_ci", "match_at_line_start", "invert"}
Binary == {"concat", "add", "either", "enclose", "followed_by", "not_preceded_by", "or", "sub"}
WithN  == {"exactly", "mul", "at_most"}

Init == /\ \E l1 \in HLeaves, l2 \in HLeaves :
             /\ heap = << Obj(LeafV(l1), 1, LeafV(l1).k = "cls"), Obj(LeafV(l2), 2, LeafV(l2).k = "cls") >>
             /\ hist = << <<"new", l1, 0, 0>>, <<"new", l2, 0, 0>> >>
        /\ cached = {}

\* a builder call: appends an object, never touches the existing cells
Build(op, i, j, n) ==
  LET c == Call(op, heap[i].v, IF j = 0 THEN Eps ELSE heap[j].v, n) IN
  /\ Len(heap) < MaxHeap
  /\ c.o.ok /\ c.o.ex = {}                       \* only calls that the specification accepts outright
  /\ (op = "invert" => heap[i].cls)
  /\ (op \in {"or", "sub"} => heap[i].cls /\ heap[j].cls)
  /\ (op = "either" => ~EitherUnspecified(heap[i].v, heap[j].v))
  /\ NamesUnique(c.o.v) /\ RefsDefined(c.o.v)
  /\ heap' = Append(heap, Obj(c.o.v, IF c.self THEN heap[i].ident ELSE Fresh,
                                IF c.self THEN heap[i].cls ELSE op \in {"or", "sub", "invert"}))
  /\ hist' = Append(hist, <<op, i, j, n>>)
  /\ UNCHANGED cached

\* a call that the specification refuses: nothing is built, the heap is unchanged - and the same call must be refused
\* again however often it is repeated (the outcome of a call does not depend on earlier calls)
Refused(op, i, j, n) ==
  LET c == Call(op, heap[i].v, IF j = 0 THEN Eps ELSE heap[j].v, n) IN
  /\ ~c.o.ok /\ Cardinality(c.o.ex) = 1 /\ c.o.ex # {"n/a"}
  /\ (op \in {"or", "sub"} => heap[i].cls /\ heap[j].cls) /\ (op = "invert" => heap[i].cls)
  /\ hist' = Append(hist, <<"!" \o op, i, j, n>>)
  /\ UNCHANGED <<heap, cached>>

Compile(i)        == /\ cached' = cached \cup {heap[i].ident}
                     /\ hist' = Append(hist, <<"compile", i, 0, 0>>) /\ UNCHANGED heap
GetCompiled(i, d) == /\ cached' = IF d THEN cached \ {heap[i].ident} ELSE cached \cup {heap[i].ident}
                     /\ hist' = Append(hist, <<IF d THEN "get_compiled_discard" ELSE "get_compiled_keep", i, 0, 0>>)
                     /\ UNCHANGED heap
Match(i)          == /\ hist' = Append(hist, <<"match", i, 0, 0>>) /\ UNCHANGED <<heap, cached>>

Next ==
  /\ Len(hist) < MaxLen
  /\ \E i \in 1..Len(heap) :
       \/ \E op \in HOps \cap Unary : Build(op, i, 0, 0)
       \/ \E op \in HOps \cap Binary, j \in 1..Len(heap) : Build(op, i, j, 0)
       \/ \E op \in HOps \cap WithN, n \in 0..2 : Build(op, i, 0, n)
       \/ ("refused" \in HOps /\ \E op \in HOps \cap Unary : Refused(op, i, 0, 0))
       \/ ("refused" \in HOps /\ \E op \in HOps \cap Binary, j \in 1..Len(heap) : Refused(op, i, j, 0))
       \/ ("refused" \in HOps /\ \E op \in HOps \cap WithN, n \in 0..2 : Refused(op, i, 0, n))
       \/ ("compile" \in HOps /\ Compile(i))
       \/ ("get_compiled" \in HOps /\ \E d \in BOOLEAN : GetCompiled(i, d))
       \/ ("match" \in HOps /\ Match(i))

Spec == Init /\ [][Next]_vars

\* simulation runs (tlc -simulate): print every history that reaches the depth bound, with the reference texts of its objects
SimPrint == Len(hist) < MaxLen \/ PrintT(<<"SIMH", hist, [i \in 1..Len(heap) |-> heap[i].ref]>>)

\* C20 on the design: existing objects never change, whatever is called
HeapImmutable == [][ \A i \in 1..Len(heap) : heap'[i] = heap[i] ]_vars
\* an alias (same identity) always has the same value as the object it aliases
AliasSameValue == \A i, j \in 1..Len(heap) : heap[i].ident = heap[j].ident => heap[i].v = heap[j].v
=============================================================================
