------------------------------ MODULE ImplInfer ------------------------------
\* Layer I, text level: pre.py's __infer_type transcribed on sequences of code points, one operator per regular
\* expression or loop of the Python function (the Python text of each is quoted next to its operator):
\*
\*   EB            escaped backslashes are replaced by a letter
\*   short form    a single (possibly escaped) character -> Class / Assertion / Token
\*   SC            class simplification: every bracket expression becomes [a]
\*   IsGroup       __is_group: the parenthesis counting loop
\*   RemoveGroups  remove_groups(pattern, "G"): innermost groups, to a fixpoint
\*   HasAlt        an unescaped | outside groups
\*   NonRep        the anchor / positive lookaround expression (not repeatable)
\*   RepAssert     the word boundary / negative lookaround expression
\*   QuantText     one atom followed by a quantifier, on the text with groups removed
\*
\* The library never sees the expression tree: every operator decides from Infer(str(operand)) whether to wrap
\* its operand and whether it may be repeated.  The theorems relate that text-level decision to the structure of the
\* value (checked by TLC on every state of the spine):
\*
\*   InferWrapSafe     where the inferred type tells an operator not to wrap, the operand's precedence level is
\*                     high enough for that position
\*   InferWrapAgree    the inferred type gives the same three wrapping decisions as the structural TypeOf: hence the
\*                     text the library builds bottom-up is Emit(v), for which PrecSafe is established by PrecSafeInv
\*   InferRepeatSound  "not repeatable" is inferred for every direct assertion, and only for values that contain
\*                     an anchor or a positive lookaround
\*
\* Like PregexImpl this module is never a verdict oracle.  It is bound to the code by the replay: _get_type() and
\* _is_repeatable() of the built object are compared with Infer(Emit(v)) (evidence: layer_I_drift.infer_*).
EXTENDS PregexImpl

StartsWith(s, p) == Len(s) >= Len(p) /\ SubSeq(s, 1, Len(p)) = p
EndsWith(s, p)   == Len(s) >= Len(p) /\ SubSeq(s, Len(s) - Len(p) + 1, Len(s)) = p
ContainsAt(s, p, i) == i >= 1 /\ i + Len(p) - 1 <= Len(s) /\ SubSeq(s, i, i + Len(p) - 1) = p
Unescaped(s, i) == i = 1 \/ s[i - 1] # 92
MinOfSet(S) == CHOOSE x \in S : \A y \in S : x <= y

\* re.sub(r"\\{2}", "a", pattern): leftmost, non-overlapping
RECURSIVE EB(_)
EB(s) == IF s = <<>> THEN <<>>
         ELSE IF Len(s) >= 2 /\ s[1] = 92 /\ s[2] = 92 THEN <<97>> \o EB(SubSeq(s, 3, Len(s)))
         ELSE <<Head(s)>> \o EB(Tail(s))

\* re.sub(r"(?<!\\)\[.+?(?<!\\)\]", "[a]", pattern, flags=DOTALL)
RECURSIVE SC(_, _)
SC(s, i) ==
  IF i > Len(s) THEN <<>>
  ELSE IF s[i] = 91 /\ Unescaped(s, i)
       THEN LET J == { j \in (i + 2)..Len(s) : s[j] = 93 /\ s[j - 1] # 92 } IN
            IF J = {} THEN <<s[i]>> \o SC(s, i + 1)
            ELSE <<91, 97, 93>> \o SC(s, MinOfSet(J) + 1)
  ELSE <<s[i]>> \o SC(s, i + 1)

\* __is_group
LookOpen(s) == \/ StartsWith(s, <<40, 63, 61>>) \/ StartsWith(s, <<40, 63, 33>>)
               \/ StartsWith(s, <<40, 63, 60, 61>>) \/ StartsWith(s, <<40, 63, 60, 33>>)
Fail == 100000
RECURSIVE GScan(_, _, _)          \* the loop "for i in range(1, len(pattern) - 1)" (here 1-based: 2..Len-1); Fail = "return False"
GScan(s, i, n) ==
  IF i > Len(s) - 1 THEN n
  ELSE IF s[i - 1] # 92
       THEN IF s[i] = 41 THEN (IF n = 0 THEN Fail ELSE GScan(s, i + 1, n - 1))
            ELSE IF s[i] = 40 THEN GScan(s, i + 1, n + 1)
            ELSE GScan(s, i + 1, n)
       ELSE GScan(s, i + 1, n)
IsGroup(s) == ~LookOpen(s) /\ Len(s) >= 2 /\ s[1] = 40 /\ s[Len(s)] = 41 /\ GScan(s, 2, 0) = 0

\* remove_groups(pattern, "G"):  "(" not after a backslash, one or more of ( [^()] | \( | \) ), ")" not after a backslash
HasLeftPar(s) == \E i \in 1..Len(s) : s[i] = 40 /\ Unescaped(s, i)
RECURSIVE GEnd(_, _, _)           \* index of the closing parenthesis of a match whose content starts at k (u units consumed), 0 = no match
GEnd(s, k, u) ==
  IF k > Len(s) THEN 0
  ELSE IF s[k] = 92 /\ k < Len(s) /\ s[k + 1] \in {40, 41} THEN GEnd(s, k + 2, u + 1)
  ELSE IF s[k] = 41 THEN (IF u >= 1 /\ s[k - 1] # 92 THEN k ELSE 0)
  ELSE IF s[k] = 40 THEN 0
  ELSE GEnd(s, k + 1, u + 1)
RECURSIVE RG1(_, _)               \* one re.sub pass
RG1(s, i) ==
  IF i > Len(s) THEN <<>>
  ELSE IF s[i] = 40 /\ Unescaped(s, i) /\ GEnd(s, i + 1, 0) # 0 THEN <<71>> \o RG1(s, GEnd(s, i + 1, 0) + 1)
  ELSE <<s[i]>> \o RG1(s, i + 1)
RECURSIVE RemoveGroups(_)
RemoveGroups(s) == IF ~HasLeftPar(s) THEN s
                   ELSE LET t == RG1(s, 1) IN IF t = <<71>> \/ t = s THEN t ELSE RemoveGroups(t)

HasAlt(t) == \E i \in 1..Len(t) : t[i] = 124 /\ Unescaped(t, i)

\* r"(?:\^|\\A|\(\?<=.+\)).*|.*(?:(?<!\\)\$|\\Z|\(\?=.+\))", DOTALL
NonRep(p) ==
  \/ StartsWith(p, <<94>>) \/ StartsWith(p, <<92, 65>>)
  \/ (StartsWith(p, <<40, 63, 60, 61>>) /\ \E j \in 6..Len(p) : p[j] = 41)
  \/ (p # <<>> /\ p[Len(p)] = 36 /\ Unescaped(p, Len(p)))
  \/ EndsWith(p, <<92, 90>>)
  \/ (p # <<>> /\ p[Len(p)] = 41 /\ \E i \in 1..Len(p) : i + 4 <= Len(p) /\ ContainsAt(p, <<40, 63, 61>>, i))
\* r"(?:\\b|\\B|\(\?<!.+\)).*|.*(?:\\b|\\B|\(\?!.+\))", DOTALL
RepAssert(p) ==
  \/ StartsWith(p, <<92, 98>>) \/ StartsWith(p, <<92, 66>>)
  \/ (StartsWith(p, <<40, 63, 60, 33>>) /\ \E j \in 6..Len(p) : p[j] = 41)
  \/ EndsWith(p, <<92, 98>>) \/ EndsWith(p, <<92, 66>>)
  \/ (p # <<>> /\ p[Len(p)] = 41 /\ \E i \in 1..Len(p) : i + 4 <= Len(p) /\ ContainsAt(p, <<40, 63, 33>>, i))

\* r"(?:\\.|[^\\])?(?:\?|\*|\+|\{(?:\d+|\d+,|,\d+|\d+,\d+)\})", DOTALL
AllDigits(s) == s # <<>> /\ \A i \in 1..Len(s) : s[i] \in 48..57
Brace(s) ==
  /\ Len(s) >= 3 /\ s[1] = 123 /\ s[Len(s)] = 125
  /\ LET b == SubSeq(s, 2, Len(s) - 1) IN
     \/ AllDigits(b)
     \/ \E k \in 1..Len(b) : /\ b[k] = 44
                             /\ LET l == SubSeq(b, 1, k - 1)  r == SubSeq(b, k + 1, Len(b)) IN
                                (l = <<>> \/ AllDigits(l)) /\ (r = <<>> \/ AllDigits(r)) /\ ~(l = <<>> /\ r = <<>>)
SufOK(s) == s \in {<<63>>, <<42>>, <<43>>} \/ Brace(s)
QuantText(t) == \/ SufOK(t)
                \/ (Len(t) >= 2 /\ t[1] # 92 /\ SufOK(Tail(t)))
                \/ (Len(t) >= 3 /\ t[1] = 92 /\ SufOK(SubSeq(t, 3, Len(t))))

IT(ty, rep) == [ty |-> ty, rep |-> rep]
Infer(e) ==
  LET p1 == EB(e) IN
  IF p1 = <<>> THEN IT("Empty", TRUE)
  ELSE IF Len(p1) = 1 \/ (Len(p1) = 2 /\ p1[1] = 92)
       THEN IF p1 = <<46>> \/ (Len(p1) = 2 /\ p1[2] \in {119, 100, 115, 87, 68, 83}) THEN IT("Class", TRUE)
            ELSE IF Len(p1) = 2 /\ p1[2] \in {98, 66} THEN IT("Assertion", TRUE)
            ELSE IF p1 \in {<<94>>, <<36>>, <<92, 65>>, <<92, 90>>} THEN IT("Assertion", FALSE)
            ELSE IT("Token", TRUE)
  ELSE LET p2 == SC(p1, 1) IN
       IF p2 = <<91, 97, 93>> THEN IT("Class", TRUE)
       ELSE IF IsGroup(p2) THEN IT("Group", TRUE)
       ELSE LET temp == RemoveGroups(p2) IN
            IF HasAlt(temp) THEN IT("Alternation", TRUE)
            ELSE IF NonRep(p2) THEN IT("Assertion", FALSE)
            ELSE IF RepAssert(p2) THEN IT("Assertion", TRUE)
            ELSE IF QuantText(temp) THEN IT("Quantifier", TRUE)
            ELSE IT("Other", TRUE)

\* --------------------------- theorems ----------------------------------
\* what a position demands of an unwrapped operand
Need == <<1, 3, 1>>                      \* concat, quantify, assertion
InferWrapSafeV(v) ==
  LET ty == Infer(Emit(v)).ty IN
  \A c \in 1..3 : ~Rule(ty)[c] => (Level(v) >= Need[c] \/ IsEmpty(v))
InferWrapAgreeV(v) ==
  LET ty == Infer(Emit(v)).ty IN \A c \in 1..3 : Rule(ty)[c] = Rule(TypeOf(v))[c]
InferRepeatSoundV(v) ==
  LET r == Infer(Emit(v)).rep IN (DirectAssertion(v) => ~r) /\ (~r => HasAnchorOrPosLook(v))
=============================================================================
