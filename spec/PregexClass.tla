----------------------------- MODULE PregexClass -----------------------------
(***************************************************************************)
(* The character-class part of the builder state machine (classes.py,      *)
(* tokens.py): constructors AnyFrom/AnyButFrom/AnyBetween/AnyButBetween,    *)
(* the named Any*/AnyBut* classes, Any, token and one-character operands,   *)
(* and the class algebra  |  -  ~  with its documented typing rules.        *)
(*                                                                         *)
(* Layer E: the intended outcome of every call, as a CharSet value or the   *)
(* documented exception.  Parameters from RunCfg:                           *)
(*   CArgs    set of constructor arguments (tagged tuples)                  *)
(*   MaxFrom  maximal arity of AnyFrom/AnyButFrom in the enumeration        *)
(*   CWin     sequence of code points for the algebra leaves                *)
(*   CSel     set of leaf families / options                                *)
(*   MaxD     number of algebra steps                                       *)
(***************************************************************************)
EXTENDS CharSet, RunCfg

TypeEx   == "InvalidArgumentTypeException"
ArgsEx   == "NotEnoughArgumentsException"
RangeEx  == "InvalidRangeException"
UnionEx  == "CannotBeUnionedException"
SubEx    == "CannotBeSubtractedException"
NegEx    == "CannotBeNegatedException"
EmptyEx  == "EmptyClassException"
GlobEx   == "GlobalWordCharSubtractionException"

OkO(v)          == [ok |-> TRUE,  v |-> v, ex |-> {}]
RaiseO(e)       == [ok |-> FALSE, v |-> AnyV, ex |-> {e}]
OkOrRaise(v, e) == [ok |-> TRUE,  v |-> v, ex |-> {e}]
Unspec(v, es)   == [ok |-> TRUE,  v |-> v, ex |-> es]

TokCP(n) ==
  CASE n = "Backslash" -> 92 [] n = "Bullet" -> 8226 [] n = "CarriageReturn" -> 13 [] n = "Copyright" -> 169
    [] n = "Division" -> 247 [] n = "Dollar" -> 36 [] n = "Euro" -> 8364 [] n = "FormFeed" -> 12
    [] n = "Infinity" -> 8734 [] n = "Multiplication" -> 215 [] n = "Newline" -> 10 [] n = "Pound" -> 163
    [] n = "Registered" -> 174 [] n = "Rupee" -> 8377 [] n = "Space" -> 32 [] n = "Tab" -> 9
    [] n = "Trademark" -> 8482 [] n = "VerticalTab" -> 11 [] n = "WhiteBullet" -> 9702 [] n = "Yen" -> 165
TokenNames == {"Backslash", "Bullet", "CarriageReturn", "Copyright", "Division", "Dollar", "Euro", "FormFeed",
               "Infinity", "Multiplication", "Newline", "Pound", "Registered", "Rupee", "Space", "Tab",
               "Trademark", "VerticalTab", "WhiteBullet", "Yen"}

(* constructor arguments: <<"c", cp>> one-character str | <<"tok", name>> token
   instance | <<"bad", kind>> with kind in multi (multi-character str), int,
   none, list (documented invalid) or emptystr, pregex (unspecified) *)
ArgValid(a)  == a[1] \in {"c", "tok"}
ArgUnspec(a) == a[1] = "bad" /\ a[2] \in {"emptystr", "pregex"}
ArgCP(a)     == IF a[1] = "c" THEN a[2] ELSE TokCP(a[2])

RECURSIVE ArgCPs(_)
ArgCPs(as) == IF as = <<>> THEN <<>> ELSE <<ArgCP(Head(as))>> \o ArgCPs(Tail(as))

EFrom(neg, as) ==
  IF Len(as) = 0 THEN RaiseO(ArgsEx)
  ELSE IF \E i \in 1..Len(as) : ~ArgValid(as[i]) /\ ~ArgUnspec(as[i]) THEN RaiseO(TypeEx)
  ELSE IF \E i \in 1..Len(as) : ArgUnspec(as[i]) THEN
       Unspec(CV(neg, IvOfChars(ArgCPs(SelectSeq(as, ArgValid)))), {TypeEx})
  ELSE OkO(CV(neg, IvOfChars(ArgCPs(as))))

EBetween(neg, a, b) ==
  IF (~ArgValid(a) /\ ~ArgUnspec(a)) \/ (~ArgValid(b) /\ ~ArgUnspec(b)) THEN RaiseO(TypeEx)
  ELSE IF ArgUnspec(a) \/ ArgUnspec(b) THEN [ok |-> FALSE, v |-> AnyV, ex |-> {TypeEx, RangeEx}]
  ELSE IF ArgCP(a) >= ArgCP(b) THEN RaiseO(RangeEx)
  ELSE OkO(CV(neg, << <<ArgCP(a), ArgCP(b)>> >>))

(* operands of the algebra: [k |-> "cv", c |-> class value] | [k |-> "ch", c |-> cp]
   (a one-character str or a token instance) | [k |-> "bad"] *)
OCls(v) == [k |-> "cv", c |-> v]
OCh(c)  == [k |-> "ch", c |-> c]
OBad    == [k |-> "bad", c |-> 0]
Single(c) == CV(FALSE, << <<c, c>> >>)

\* binary operator dispatch: returns <<left class, right class>> or the exception
BinOutcome(op, l, r) ==
  LET ex == IF op = "or" THEN UnionEx ELSE SubEx
      \* python calls the left operand's method when it is a class, else the right one's reflected method
      owner == IF l.k = "cv" THEN l.c ELSE r.c
      other == IF l.k = "cv" THEN r ELSE l
      conv  == IF other.k = "cv" THEN other.c
               ELSE IF other.k = "ch" /\ ~owner.neg THEN Single(other.c)
               ELSE AnyV
      bad   == other.k = "bad" \/ (other.k = "ch" /\ owner.neg)
      a     == IF l.k = "cv" THEN owner ELSE conv
      b     == IF l.k = "cv" THEN conv ELSE owner
  IN IF l.k # "cv" /\ r.k # "cv" THEN RaiseO("NoClassOperand")       \* not generated
     ELSE IF bad THEN RaiseO(ex)
     ELSE IF a.neg # b.neg THEN
          (IF op = "or" /\ (a.any \/ b.any) THEN OkOrRaise(AnyV, ex) ELSE RaiseO(ex))
     ELSE IF op = "or" THEN
          (IF a.any \/ b.any THEN OkO(AnyV)
           \* the union of a global word class with another class is an ordinary class again (only instances of
           \* AnyWordChar/AnyButWordChar refuse subtraction); its Unicode extras stay don't-care through the dc flags
           ELSE OkO([neg |-> a.neg, iv |-> Union(a.iv, b.iv), any |-> FALSE, glob |-> FALSE]))
     ELSE \* subtraction
          IF b.any THEN RaiseO(EmptyEx)
          ELSE IF a.any THEN OkO([neg |-> TRUE, iv |-> b.iv, any |-> FALSE, glob |-> b.glob])
          ELSE IF a.glob THEN RaiseO(GlobEx)
          ELSE IF Diff(a.iv, b.iv) = <<>> THEN RaiseO(EmptyEx)
          ELSE OkO(CV(a.neg, Diff(a.iv, b.iv)))

EInv(a) == IF a.any THEN RaiseO(NegEx) ELSE OkO([a EXCEPT !.neg = ~a.neg])

(* ------------------------------- leaves -------------------------------- *)
E(t, o) == [t |-> t, o |-> o]

RECURSIVE SeqsUpTo(_, _)
SeqsUpTo(S, n) == IF n = 0 THEN {<<>>} ELSE
                  LET P == SeqsUpTo(S, n - 1) IN P \cup {Append(p, x) : p \in {q \in P : Len(q) = n - 1}, x \in S}

\* C06: every constructor call over the argument set
CtorLeaves ==
  IF "ctor" \notin CSel THEN {} ELSE
  { E(<<"CFrom", neg, <<"args">> \o as>>, EFrom(neg, as)) : neg \in BOOLEAN, as \in SeqsUpTo(CArgs, MaxFrom) }
  \cup { E(<<"CBetween", neg, a, b>>, EBetween(neg, a, b)) : neg \in BOOLEAN, a \in CArgs, b \in CArgs }
NamedLeaves ==
  IF "named" \notin CSel THEN {} ELSE
  { E(<<"CNamed", neg, n>>, OkO(CV(neg, NamedIv(n)))) : neg \in BOOLEAN, n \in NamedClasses \ {"WordChar"} }
  \cup { E(<<"CWord", neg, g>>, OkO(IF g THEN GlobV(neg) ELSE CV(neg, WordC))) : neg \in BOOLEAN, g \in BOOLEAN }
  \cup { E(<<"CAny">>, OkO(AnyV)) }
TokenLeaves ==
  IF "tokens" \notin CSel THEN {} ELSE
  { E(<<"CFrom", FALSE, <<"args", <<"tok", n>>>>>>, OkO(Single(TokCP(n)))) : n \in TokenNames }

\* C07: algebra leaves over a window of (adjacent) code points
W(i) == CWin[i]
WIdx == 1..Len(CWin)
Pairs   == {p \in WIdx \X WIdx : p[2] > p[1]}
Triples == {p \in WIdx \X WIdx \X WIdx : p[2] > p[1] /\ p[3] > p[2] + 1}
BPairs  == {p \in WIdx \X WIdx : W(p[2]) > W(p[1])}
AlgLeaves ==
  IF "alg" \notin CSel THEN {} ELSE
  { E(<<"CFrom", neg, <<"args", <<"c", W(i)>>>>>>, OkO(CV(neg, IvOfChars(<<W(i)>>)))) : neg \in BOOLEAN, i \in WIdx }
  \cup { E(<<"CFrom", neg, <<"args", <<"c", W(p[1])>>, <<"c", W(p[2])>>>>>>, OkO(CV(neg, IvOfChars(<<W(p[1]), W(p[2])>>)))) :
           neg \in BOOLEAN, p \in Pairs }
  \cup (IF "from3" \in CSel
        THEN { E(<<"CFrom", neg, <<"args", <<"c", W(p[1])>>, <<"c", W(p[2])>>, <<"c", W(p[3])>>>>>>, OkO(CV(neg, IvOfChars(<<W(p[1]), W(p[2]), W(p[3])>>)))) :
                 neg \in BOOLEAN, p \in Triples }
        ELSE {})
  \cup { E(<<"CBetween", neg, <<"c", W(p[1])>>, <<"c", W(p[2])>>>>, OkO(CV(neg, << <<W(p[1]), W(p[2])>> >>))) :
           neg \in BOOLEAN, p \in BPairs }
AlgNamed ==
  IF "algnamed" \notin CSel THEN {} ELSE
  { E(<<"CNamed", neg, n>>, OkO(CV(neg, NamedIv(n)))) : neg \in BOOLEAN, n \in {"Digit", "Letter", "LowercaseLetter", "Whitespace", "Punctuation"} }
  \cup { E(<<"CWord", neg, g>>, OkO(IF g THEN GlobV(neg) ELSE CV(neg, WordC))) : neg \in BOOLEAN, g \in BOOLEAN }
  \cup { E(<<"CAny">>, OkO(AnyV)) }

ClassLeaves == CtorLeaves \cup NamedLeaves \cup TokenLeaves \cup AlgLeaves \cup AlgNamed

\* non-class operands of the algebra
OtherOperands ==
  IF "operands" \notin CSel THEN {} ELSE
  { [t |-> <<"CChar", W(i)>>, x |-> OCh(W(i))] : i \in WIdx }
  \cup { [t |-> <<"CTok", n>>, x |-> OCh(TokCP(n))] : n \in {"Backslash", "Dollar", "Newline", "Space"} }
  \cup { [t |-> <<"CBad", kd>>, x |-> OBad] : kd \in {"multi", "int", "pregex", "none"} }

PoolC == { [t |-> l.t, x |-> OCls(l.o.v)] : l \in {m \in (AlgLeaves \cup AlgNamed) : m.o.ok /\ m.o.ex = {}} } \cup OtherOperands

(* ------------------------------ machine -------------------------------- *)
VARIABLES cur, d, res
vars == <<cur, d, res>>

Expect(o, dcs) ==
  [ok |-> o.ok, ex |-> o.ex,
   neg |-> o.v.neg, iv |-> o.v.iv, any |-> o.v.any, glob |-> o.v.glob,
   den |-> IF o.ok THEN Denote(o.v) ELSE <<>>,
   dc |-> IF o.ok THEN dcs \cup Shorthands(o.v.iv) \cup (IF o.v.glob THEN {"w", "d"} ELSE {}) ELSE {}]

Init == /\ \E l \in ClassLeaves : /\ cur = [t |-> l.t, v |-> l.o.v]
                                  /\ res = Expect(l.o, {})
                                  /\ d = IF l.o.ok /\ l.o.ex = {} THEN 0 ELSE MaxD

DcOf(x) == IF x.k = "cv" THEN Shorthands(x.c.iv) \cup (IF x.c.glob THEN {"w", "d"} ELSE {}) ELSE {}

Steps(x) ==
  LET me == OCls(x.v) IN
  { [t |-> <<"COr", x.t, y.t>>,  o |-> BinOutcome("or", me, y.x),  dc |-> DcOf(y.x)] : y \in PoolC }
  \cup { [t |-> <<"COr", y.t, x.t>>,  o |-> BinOutcome("or", y.x, me),  dc |-> DcOf(y.x)] : y \in PoolC }
  \cup { [t |-> <<"CSub", x.t, y.t>>, o |-> BinOutcome("sub", me, y.x), dc |-> DcOf(y.x)] : y \in PoolC }
  \cup { [t |-> <<"CSub", y.t, x.t>>, o |-> BinOutcome("sub", y.x, me), dc |-> DcOf(y.x)] : y \in PoolC }
  \cup { [t |-> <<"CInv", x.t>>, o |-> EInv(x.v), dc |-> {}] }

Next == /\ d < MaxD
        /\ \E s \in Steps(cur) :
             /\ cur' = [t |-> s.t, v |-> s.o.v]
             /\ d' = IF s.o.ok /\ s.o.ex = {} THEN d + 1 ELSE MaxD
             /\ res' = Expect(s.o, s.dc \cup res.dc)

Spec == Init /\ [][Next]_vars

(* ---------------- model-level theorems about the interval algebra ------ *)
\* probe points: every window character, its neighbours, and the ends of every interval in play
Probe == {0, MaxCP} \cup UNION { {W(i) - 1, W(i), W(i) + 1} : i \in WIdx } \cup {47, 48, 57, 58, 64, 65, 90, 91, 95, 96, 97, 122, 123}
ProbeOK == { c \in Probe : c >= 0 /\ c <= MaxCP }

IvNormal == res.ok => (Normal(res.iv) /\ Normal(res.den))
DenoteIsComplement == res.ok => \A c \in ProbeOK : InIv(res.den, c) = (IF res.neg THEN ~InIv(res.iv, c) ELSE InIv(res.iv, c))

\* pointwise set semantics of every step (action property): validates Union/Diff/Remove/Insert
Pointwise ==
  [][ (res'.ok /\ res'.ex = {} /\ cur'.t[1] \in {"COr", "CSub"} /\ ~res'.any /\ ~cur.v.any) =>
        LET other == CHOOSE y \in PoolC : y.t = (IF cur'.t[2] = cur.t THEN cur'.t[3] ELSE cur'.t[2])
            meFirst == cur'.t[2] = cur.t
            ov == IF other.x.k = "cv" THEN other.x.c ELSE Single(other.x.c)
            a == IF meFirst THEN cur.v ELSE ov
            b == IF meFirst THEN ov ELSE cur.v
        IN (~a.any /\ ~b.any) =>
           \A c \in ProbeOK :
             InIv(res'.iv, c) = (IF cur'.t[1] = "COr" THEN InIv(a.iv, c) \/ InIv(b.iv, c)
                                 ELSE InIv(a.iv, c) /\ ~InIv(b.iv, c)) ]_vars
DoubleNeg ==
  [][ (cur'.t[1] = "CInv" /\ res'.ok) => (res'.neg = ~res.neg /\ res'.iv = res.iv) ]_vars
=============================================================================
