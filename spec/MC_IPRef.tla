------------------------------- MODULE MC_IPRef -------------------------------
(* DFAEquivalentToPredicate: on every string over a small alphabet up to MaxLen the reference
   automata accept exactly the declarative predicates.  RunCfg: IPAlpha, MaxLen, IPKind *)
EXTENDS IPRef, RunCfg
VARIABLES t
P == INSTANCE PregexMeta WITH par <- [kind |-> "none"], txt <- t, res <- 0
Init == t = <<>>
Next == Len(t) < MaxLen /\ \E c \in IPAlpha : t' = Append(t, c)
Spec == Init /\ [][Next]_t
V4Equiv == RefAccept(RefRun(V4Init, t)) = P!IsIPv4(t)
V6Equiv == RefAccept(RefRun(V6Init, t)) = P!IsIPv6(t)
=============================================================================
