------------------------------ MODULE PregexApi ------------------------------
(***************************************************************************)
(* The matching / splitting / replacing API of Pregex as functions of      *)
(*   t     the subject text, a sequence of code points                     *)
(*   ML    the match list: what re.finditer finds for the emitted pattern  *)
(*         under MULTILINE|DOTALL, as a sequence of records                *)
(*         [s, e, g] with 0-based half-open spans; g is the sequence of    *)
(*         group spans <<s, e>>, <<-1, -1>> for a group that did not        *)
(*         participate                                                      *)
(*   names the group names in group order ("" = unnamed)                   *)
(*   FM    the fullmatch verdict                                           *)
(* Whether the instance is compiled is NOT an argument of any of them:      *)
(* results are independent of the cache by construction (C11).              *)
(* None is written <<-1>> (not a code point sequence).                      *)
(***************************************************************************)
EXTENDS Naturals, Integers, Sequences, FiniteSets, TLC

None == << -1 >>
Sub(t, s, e) == IF e <= s THEN <<>> ELSE SubSeq(t, s + 1, e)
Max2(a, b) == IF a > b THEN a ELSE b
Min2(a, b) == IF a < b THEN a ELSE b

RECURSIVE Flatten(_)
Flatten(ss) == IF ss = <<>> THEN <<>> ELSE Head(ss) \o Flatten(Tail(ss))

HasMatch(ML) == Len(ML) > 0
IsExactMatch(FM) == FM

GetMatches(t, ML)       == [i \in 1..Len(ML) |-> Sub(t, ML[i].s, ML[i].e)]
GetMatchesAndPos(t, ML) == [i \in 1..Len(ML) |-> << Sub(t, ML[i].s, ML[i].e), ML[i].s, ML[i].e >>]
WithContext(t, ML, nl, nr) ==
  [i \in 1..Len(ML) |-> Sub(t, Max2(ML[i].s - nl, 0), Min2(ML[i].e + nr, Len(t)))]

Participates(sp) == sp[1] >= 0
GroupText(t, sp) == IF Participates(sp) THEN Sub(t, sp[1], sp[2]) ELSE None

\* one entry per match; include_empty = FALSE removes exactly the captures equal to ''
KeepCap(t, sp, incl) == incl \/ GroupText(t, sp) # <<>>
CapturesOf(t, m, incl) ==
  LET idx == SelectSeq([k \in 1..Len(m.g) |-> k], LAMBDA k : KeepCap(t, m.g[k], incl))
  IN [j \in 1..Len(idx) |-> GroupText(t, m.g[idx[j]])]
GetCaptures(t, ML, incl) == [i \in 1..Len(ML) |-> CapturesOf(t, ML[i], incl)]

PosOf(m, sp, rel) == IF ~Participates(sp) THEN <<-1, -1>>
                     ELSE IF rel THEN <<sp[1] - m.s, sp[2] - m.s>> ELSE <<sp[1], sp[2]>>
CapturesAndPosOf(t, m, incl, rel) ==
  LET idx == SelectSeq([k \in 1..Len(m.g) |-> k], LAMBDA k : KeepCap(t, m.g[k], incl))
  IN [j \in 1..Len(idx) |-> << GroupText(t, m.g[idx[j]]), PosOf(m, m.g[idx[j]], rel)[1], PosOf(m, m.g[idx[j]], rel)[2] >>]
GetCapturesAndPos(t, ML, incl, rel) == [i \in 1..Len(ML) |-> CapturesAndPosOf(t, ML[i], incl, rel)]

\* named captures: a mapping name -> value, written as the sequence of <<name, value>> in group order
NamedIdx(names) == SelectSeq([k \in 1..Len(names) |-> k], LAMBDA k : names[k] # "")
NamedCapturesOf(t, m, names, incl) ==
  LET idx == SelectSeq(NamedIdx(names), LAMBDA k : KeepCap(t, m.g[k], incl))
  IN [j \in 1..Len(idx) |-> << names[idx[j]], GroupText(t, m.g[idx[j]]) >>]
GetNamedCaptures(t, ML, names, incl) == [i \in 1..Len(ML) |-> NamedCapturesOf(t, ML[i], names, incl)]
NamedCapturesAndPosOf(t, m, names, incl, rel) ==
  LET idx == SelectSeq(NamedIdx(names), LAMBDA k : KeepCap(t, m.g[k], incl))
  IN [j \in 1..Len(idx) |-> << names[idx[j]], GroupText(t, m.g[idx[j]]),
                               PosOf(m, m.g[idx[j]], rel)[1], PosOf(m, m.g[idx[j]], rel)[2] >>]
GetNamedCapturesAndPos(t, ML, names, incl, rel) ==
  [i \in 1..Len(ML) |-> NamedCapturesAndPosOf(t, ML[i], names, incl, rel)]

\* pieces of the text between consecutive matches (one more piece than matches)
SplitByMatch(t, ML) ==
  [i \in 1..(Len(ML) + 1) |->
     Sub(t, IF i = 1 THEN 0 ELSE ML[i - 1].e, IF i = Len(ML) + 1 THEN Len(t) ELSE ML[i].s)]

\* the split points of split_by_capture: participating captured spans in match order, group
\* order; with include_empty = FALSE an empty capture is not a split point
RECURSIVE SplitSpans(_, _, _, _, _)
SplitSpans(t, ML, incl, i, k) ==
  IF i > Len(ML) THEN <<>>
  ELSE IF k > Len(ML[i].g) THEN SplitSpans(t, ML, incl, i + 1, 1)
  ELSE LET sp == ML[i].g[k]
           use == Participates(sp) /\ (incl \/ sp[2] > sp[1])
       IN (IF use THEN << sp >> ELSE <<>>) \o SplitSpans(t, ML, incl, i, k + 1)
SpansOrdered(sps) == \A j \in 1..(Len(sps) - 1) : sps[j][2] <= sps[j + 1][1]
SplitByCaptureDefined(t, ML, incl) == SpansOrdered(SplitSpans(t, ML, incl, 1, 1))
SplitBySpans(t, sps) ==
  [i \in 1..(Len(sps) + 1) |->
     Sub(t, IF i = 1 THEN 0 ELSE sps[i - 1][2], IF i = Len(sps) + 1 THEN Len(t) ELSE sps[i][1])]
SplitByCapture(t, ML, incl) == SplitBySpans(t, SplitSpans(t, ML, incl, 1, 1))

\* replace the first count matches from the left (all when count = 0) by a plain string
ReplaceK(t, ML, repl, count) ==
  LET k == IF count = 0 THEN Len(ML) ELSE Min2(count, Len(ML))
      pieces == [i \in 1..(k + 1) |->
                   Sub(t, IF i = 1 THEN 0 ELSE ML[i - 1].e, IF i = k + 1 THEN Len(t) ELSE ML[i].s)
                   \o (IF i <= k THEN repl ELSE <<>>)]
  IN Flatten(pieces)

(***************************************************************************)
(* Well-formed match lists and the statements of C11-C14 as theorems about  *)
(* these definitions (checked by TLC over all small texts and match lists   *)
(* in MC_Api).                                                              *)
(***************************************************************************)
WellFormedML(t, ML, ngroups) ==
  /\ \A i \in 1..Len(ML) : /\ 0 <= ML[i].s /\ ML[i].s <= ML[i].e /\ ML[i].e <= Len(t)
                           /\ Len(ML[i].g) = ngroups
                           /\ \A k \in 1..ngroups : LET sp == ML[i].g[k] IN
                                 sp = <<-1, -1>> \/ (0 <= sp[1] /\ sp[1] <= sp[2] /\ sp[2] <= Len(t))
  /\ \A i \in 1..(Len(ML) - 1) : ML[i].e <= ML[i + 1].s /\ (ML[i].e < ML[i + 1].e \/ ML[i].s < ML[i + 1].s)

\* C11: source[start:end] is the match
SliceIsMatch(t, ML) == \A i \in 1..Len(ML) : LET r == GetMatchesAndPos(t, ML)[i] IN Sub(t, r[2], r[3]) = r[1]
\* C12: slicing the source (or the match) at a reported position reproduces the captured text
SliceIdentity(t, ML, incl, rel) ==
  \A i \in 1..Len(ML) : LET caps == GetCapturesAndPos(t, ML, incl, rel)[i] IN
     \A j \in 1..Len(caps) :
        IF caps[j][1] = None THEN caps[j][2] = -1 /\ caps[j][3] = -1
        ELSE IF rel THEN caps[j][2] < 0 \/ caps[j][3] > ML[i].e - ML[i].s   \* group outside the match (lookaround)
                         \/ Sub(Sub(t, ML[i].s, ML[i].e), caps[j][2], caps[j][3]) = caps[j][1]
             ELSE Sub(t, caps[j][2], caps[j][3]) = caps[j][1]
OnePerMatch(t, ML, incl) == Len(GetCaptures(t, ML, incl)) = Len(ML)
IncludeEmptyFilter(t, ML) ==
  \A i \in 1..Len(ML) :
     GetCaptures(t, ML, FALSE)[i] = SelectSeq(GetCaptures(t, ML, TRUE)[i], LAMBDA c : c # <<>>)
\* C13: interleaving pieces and matches rebuilds the source
RECURSIVE Interleave(_, _, _)
Interleave(pieces, ms, i) ==
  IF i > Len(pieces) THEN <<>>
  ELSE pieces[i] \o (IF i <= Len(ms) THEN ms[i] ELSE <<>>) \o Interleave(pieces, ms, i + 1)
SplitReconstruct(t, ML) ==
  /\ Len(SplitByMatch(t, ML)) = Len(ML) + 1
  /\ Interleave(SplitByMatch(t, ML), GetMatches(t, ML), 1) = t
SplitCaptureReconstruct(t, ML, incl) ==
  SplitByCaptureDefined(t, ML, incl) =>
    LET sps == SplitSpans(t, ML, incl, 1, 1) IN
    Interleave(SplitByCapture(t, ML, incl), [j \in 1..Len(sps) |-> Sub(t, sps[j][1], sps[j][2])], 1) = t
ReplaceAllEqualsJoin(t, ML, repl) ==
  ReplaceK(t, ML, repl, 0) = Interleave(SplitByMatch(t, ML), [i \in 1..Len(ML) |-> repl], 1)
ReplaceFirstK(t, ML, repl, k) ==
  \* replacing k matches touches nothing after the k-th match
  LET kk == Min2(k, Len(ML))
      tail == IF kk = 0 THEN t ELSE Sub(t, ML[kk].e, Len(t))
      r == ReplaceK(t, ML, repl, k)
  IN k > 0 => (Len(r) >= Len(tail) /\ SubSeq(r, Len(r) - Len(tail) + 1, Len(r)) = tail)
\* C14: the context window is the match extended and clipped
WindowContainsMatch(t, ML, nl, nr) ==
  \A i \in 1..Len(ML) : LET w == WithContext(t, ML, nl, nr)[i] IN
     /\ Len(w) = Min2(ML[i].e + nr, Len(t)) - Max2(ML[i].s - nl, 0)
     /\ Len(w) >= ML[i].e - ML[i].s
=============================================================================
