----------------------------- MODULE PregexTerms -----------------------------
(***************************************************************************)
(* Eval(term): the intended outcome of a whole surface term (a program),   *)
(* by recursion over its structure with the call-by-value discipline of    *)
(* Python: arguments are evaluated first, left to right; the first one     *)
(* that raises decides.  Used to validate terms that were NOT enumerated    *)
(* by the spine machine: programs recorded from the repository's own test   *)
(* suite and seeded random programs over the whole of Unicode.  The state   *)
(* has the shape of a spine state, so the same judge replays it.            *)
(*                                                                         *)
(* terms.json: a sequence of surface terms in the tuple encoding of         *)
(* PregexSpine / harness/build.py.                                          *)
(***************************************************************************)
EXTENDS PregexSpine, Json, IOUtils, TLCExt

Terms == JsonDeserialize("terms.json")

TokenCP(n) ==
  CASE n = "Backslash" -> 92 [] n = "Bullet" -> 8226 [] n = "CarriageReturn" -> 13 [] n = "Copyright" -> 169
    [] n = "Division" -> 247 [] n = "Dollar" -> 36 [] n = "Euro" -> 8364 [] n = "FormFeed" -> 12
    [] n = "Infinity" -> 8734 [] n = "Multiplication" -> 215 [] n = "Newline" -> 10 [] n = "Pound" -> 163
    [] n = "Registered" -> 174 [] n = "Rupee" -> 8377 [] n = "Space" -> 32 [] n = "Tab" -> 9
    [] n = "Trademark" -> 8482 [] n = "VerticalTab" -> 11 [] n = "WhiteBullet" -> 9702 [] n = "Yen" -> 165

BoundOf(a) == CASE a[1] = "i" -> IntA(a[2]) [] a[1] = "none" -> NoneA [] a[1] \in {"bool", "boolf"} -> BoolA
                [] a[1] \in {"float", "float0", "float1", "float2", "float10"} -> FloatA [] a[1] = "str" -> StrA
NameOf(a)  == CASE a[1] = "none" -> NoneA [] a[1] = "name" -> NameA(a[2]) [] a[1] = "badname" -> BadNameA [] a[1] = "badtype" -> BadTypeA
SetOfSeq(s) == {s[i] : i \in 1..Len(s)}

\* combine the outcome of a call with the outcomes of its already evaluated arguments
RECURSIVE FirstRaise(_, _)
FirstRaise(os, i) == IF i > Len(os) THEN 0 ELSE IF ~os[i].ok THEN i ELSE FirstRaise(os, i + 1)
RECURSIVE ExOf(_, _)
ExOf(os, i) == IF i > Len(os) THEN {} ELSE os[i].ex \cup ExOf(os, i + 1)
\* an argument whose own value defines a group name twice (Enclose(x, Capture(y, 'n')), EnclosedBy(x, Capture(y, 'n')), ...) can never
\* be part of a valid pattern: whatever is built from it has no specified outcome ("*" in ex marks it)
Tainted(o) == "*" \in o.ex \/ (o.ok /\ ~IsBad(o.v) /\ ~NamesUnique(o.v))
Strict(os, call) ==
  IF \E i \in 1..Len(os) : Tainted(os[i]) THEN [ok |-> FALSE, v |-> Eps, ex |-> {"*"}]
  ELSE IF FirstRaise(os, 1) # 0 THEN [os[FirstRaise(os, 1)] EXCEPT !.ex = @ \cup ExOf(os, 1)]
  ELSE [call EXCEPT !.ex = @ \cup ExOf(os, 1)]

RECURSIVE EvalT(_), EvalArgs(_, _)
EvalArgs(as, i) == IF i > Len(as) THEN <<>> ELSE <<EvalT(as[i])>> \o EvalArgs(as, i + 1)
Vals(os) == [i \in 1..Len(os) |-> os[i].v]

EvalT(t) ==
  LET o == t[1] IN
  CASE o = "str"    -> OkO(FromStr(t[2]))
    [] o = "Pregex" -> OkO(FromStr(t[2]))
    [] o = "badarg" -> OkO(Bad(t[2]))
    [] o = "Token"  -> OkO(Lit(<<TokenCP(t[2])>>))
    [] o = "WordBoundary" -> OkO(Wb)
    [] o = "NonWordBoundary" -> OkO(Nwb)
    [] o = "Any" -> OkO(AnyC)
    [] o = "AnyDigit" -> OkO(Cls(FALSE, << <<48, 57>> >>))
    [] o = "AnyFrom" -> OkO(Cls(FALSE, IvOfSet(SetOfSeq(t[2]))))
    [] o = "AnyButFrom" -> OkO(Cls(TRUE, IvOfSet(SetOfSeq(t[2]))))
    [] o = "AnyBetween" -> OkO(Cls(FALSE, << <<t[2], t[3]>> >>))
    [] o \in {"Concat", "Either", "Enclose"} ->
         LET os == EvalArgs(Tail(t[2]), 1) IN
         Strict(os, EOperatorN(o, Vals(os)))
    [] o \in {"Optional", "Indefinite", "OneOrMore"} ->
         LET x == EvalT(t[2]) IN
         Strict(<<x>>, CASE o = "Optional" -> EOptional(x.v, t[3]) [] o = "Indefinite" -> EIndefinite(x.v, t[3])
                         [] o = "OneOrMore" -> EOneOrMore(x.v, t[3]))
    [] o = "Exactly" -> LET x == EvalT(t[2]) IN Strict(<<x>>, EExactly(x.v, BoundOf(t[3])))
    [] o = "Mul"     -> LET x == EvalT(t[2]) IN Strict(<<x>>, EMul(x.v, BoundOf(t[3])))
    [] o = "AtLeast" -> LET x == EvalT(t[2]) IN Strict(<<x>>, EAtLeast(x.v, BoundOf(t[3]), t[4]))
    [] o = "AtMost"  -> LET x == EvalT(t[2]) IN Strict(<<x>>, EAtMost(x.v, BoundOf(t[3]), t[4]))
    [] o = "AtLeastAtMost" -> LET x == EvalT(t[2]) IN Strict(<<x>>, EAtLeastAtMost(x.v, BoundOf(t[3]), BoundOf(t[4]), t[5]))
    [] o = "Capture" -> LET x == EvalT(t[2]) IN Strict(<<x>>, ECapture(x.v, NameOf(t[3])))
    [] o = "Group"   -> LET x == EvalT(t[2]) IN Strict(<<x>>, EGroup(x.v, t[3]))
    [] o = "Anchor"  -> LET x == EvalT(t[3]) IN Strict(<<x>>, EAnchor(t[2], x.v))
    [] o = "Look"    -> LET m == EvalT(t[4])
                            as == EvalArgs(Tail(t[5]), 1)
                        IN Strict(<<m>> \o as, ELookN(t[2], t[3], m.v, Vals(as)))
    [] o = "Backreference" ->
         EBackreference(CASE t[2][1] = "i" -> [t |-> "int", i |-> t[2][2]] [] t[2][1] = "name" -> [t |-> "name", s |-> t[2][2]]
                          [] t[2][1] = "badname" -> [t |-> "badname"] [] OTHER -> [t |-> "badtype"])
    [] o = "Conditional" ->
         LET a == EvalT(t[3])
             hasb == Len(t) = 4 /\ t[4] # <<"badarg", "none">>      \* pre2 = None means "no else branch"
             b == IF hasb THEN EvalT(t[4]) ELSE OkO(Eps)
         IN Strict(IF hasb THEN <<a, b>> ELSE <<a>>, EConditional(NameOf(t[2]), a.v, b.v, hasb))

\* terms whose outcome the documentation leaves open somewhere inside: not judged
RECURSIVE Unspec(_)
Unspec(t) ==
  LET o == t[1] IN
  CASE o \in {"str", "Pregex", "badarg", "Token", "WordBoundary", "NonWordBoundary", "Any", "AnyDigit", "AnyFrom", "AnyButFrom",
              "AnyBetween", "Backreference"} -> FALSE
    [] o = "Either" ->
         LET as == Tail(t[2])
             os == EvalArgs(as, 1)
         IN (\E i \in 1..Len(as) : Unspec(as[i]))
            \/ (\E i \in 1..(Len(os) - 1) : os[i].ok /\ os[i + 1].ok /\ ~IsBad(os[i].v) /\ ~IsBad(os[i + 1].v) /\
                  \* an empty pattern followed by a non-empty later alternative (first alternative empty, or accumulated empty)
                  (\A j \in 1..i : os[j].ok /\ IsEmpty(os[j].v)) /\ ~IsEmpty(os[i + 1].v))
    [] o \in {"Concat", "Enclose"} -> \E i \in 1..(Len(t[2]) - 1) : Unspec(t[2][i + 1])
    [] o = "Group" -> Unspec(t[2]) \/ (LET x == EvalT(t[2]) IN x.ok /\ ~IsBad(x.v) /\ GroupUnspecified(x.v, t[3]))
    [] o \in {"Optional", "Indefinite", "OneOrMore", "Exactly", "Mul", "AtLeast", "AtMost", "AtLeastAtMost", "Capture"} -> Unspec(t[2])
    [] o = "Anchor" -> Unspec(t[3])
    [] o = "Look" -> Unspec(t[4]) \/ \E i \in 1..(Len(t[5]) - 1) : Unspec(t[5][i + 1])
    [] o = "Conditional" -> Unspec(t[3]) \/ (Len(t) = 4 /\ t[4] # <<"badarg", "none">> /\ Unspec(t[4]))

VARIABLE l
tvars == <<win, cur, d, res, l>>

StateOf(k) ==
  LET t == Terms[k]
      o == EvalT(t)
      judged == ~Unspec(t) /\ "*" \notin o.ex /\ (o.ok => (~IsBad(o.v) /\ NamesUnique(o.v)))
  IN [cur |-> [t |-> t, v |-> o.v],
      res |-> IF judged THEN Expect(o, {}) ELSE [Expect(OkO(Eps), {"unspecified"}) EXCEPT !.ex = {"*"}]]

TInit == /\ l = 1 /\ win = <<97, 98, 99>> /\ d = 1
         /\ cur = StateOf(1).cur /\ res = StateOf(1).res
TNext == /\ l < Len(Terms) /\ l' = l + 1 /\ UNCHANGED <<win, d>>
         /\ cur' = StateOf(l + 1).cur /\ res' = StateOf(l + 1).res
TSpec == TInit /\ [][TNext]_tvars
AllConsumed == TLCGet("stats").diameter = Len(Terms)
\* the layer-I theorems (PregexImpl, ImplInfer) on the value of every judged, accepted term
TLayerI == (res.ok /\ "*" \notin res.ex) =>
             /\ PrecSafe(cur.v) /\ InferWrapSafeV(cur.v) /\ InferWrapAgreeV(cur.v) /\ InferRepeatSoundV(cur.v)
=============================================================================
