----------------------------- MODULE PregexCache -----------------------------
(***************************************************************************)
(* The per-instance compilation cache of a Pregex object and the calls     *)
(* that touch it (pre.py: compile, get_compiled_pattern, purge and every    *)
(* matching method).  One action per public call.  `hist` is the history    *)
(* variable that is replayed into the real library; `flags` records the     *)
(* cache state the specification expects after every call.                  *)
(*                                                                         *)
(* Handles: 1 is the object itself, 2 an alias obtained through a           *)
(* documented "returns itself" shortcut (p.exactly(1), p.concat('')), so    *)
(* both handles share one cache cell.                                       *)
(* RunCfg: Handles (set of handles), ObsGroups (set of observer groups),    *)
(*         MaxLen                                                           *)
(***************************************************************************)
EXTENDS Naturals, Sequences, RunCfg

VARIABLES cached, hist, flags
vars == <<cached, hist, flags>>

Init == cached = FALSE /\ hist = <<>> /\ flags = <<>>

Do(op, h, c) == /\ hist' = Append(hist, <<op, h>>)
                /\ cached' = c
                /\ flags' = Append(flags, c)

Compile(h)            == Do("compile", h, TRUE)
GetCompiledKeep(h)    == Do("get_compiled_keep", h, TRUE)
GetCompiledDiscard(h) == Do("get_compiled_discard", h, FALSE)
Purge(h)              == Do("purge", h, cached)              \* re.purge() clears re's cache, not the instance's
Observe(g, h)         == Do(g, h, cached)                    \* matching never changes the cache

Next == /\ Len(hist) < MaxLen
        /\ \E h \in Handles :
             \/ Compile(h) \/ GetCompiledKeep(h) \/ GetCompiledDiscard(h) \/ Purge(h)
             \/ \E g \in ObsGroups : Observe(g, h)

Spec == Init /\ [][Next]_vars

\* the cache flag is a function of the last cache-touching call only
CacheProtocol ==
  \A i \in 1..Len(hist) :
     LET op == hist[i][1] IN
       /\ (op \in {"compile", "get_compiled_keep"} => flags[i])
       /\ (op = "get_compiled_discard" => ~flags[i])
       /\ (op \notin {"compile", "get_compiled_keep", "get_compiled_discard"} =>
             flags[i] = (IF i = 1 THEN FALSE ELSE flags[i - 1]))
=============================================================================
