"""Evidence files (/verif/evidence/<id>.json) and replay files."""
import json
import os
import time

VERIF = os.path.dirname(os.path.dirname(os.path.abspath(__file__)))
EVID = os.environ.get('VERIF_EVIDENCE_DIR') or os.path.join(VERIF, 'evidence')


def _plain(x):
    if isinstance(x, (set, frozenset)):
        return sorted(_plain(e) for e in x)
    if isinstance(x, tuple):
        return [_plain(e) for e in x]
    if isinstance(x, list):
        return [_plain(e) for e in x]
    if isinstance(x, dict):
        return {str(k): _plain(v) for k, v in x.items()}
    return x


def write_evidence(prop, tier, seed, coverage, wall_s, violations, assumptions):
    os.makedirs(EVID, exist_ok=True)
    doc = {'property_id': prop, 'tier': tier, 'seed': int(seed), 'level': 'model_checking',
           'coverage': _plain(coverage), 'assumptions': assumptions, 'wall_s': round(wall_s, 2),
           'violations': int(violations)}
    tmp = os.path.join(EVID, prop + '.json.tmp')
    with open(tmp, 'w') as fh:
        json.dump(doc, fh, indent=1, ensure_ascii=True)
    os.replace(tmp, os.path.join(EVID, prop + '.json'))
    return doc


def write_replay(prop, n, rec):
    d = os.path.join(EVID, 'replays', prop)
    os.makedirs(d, exist_ok=True)
    path = os.path.join(d, '%d.json' % n)
    rec = dict(_plain(rec), replay_cmd='./vf replay ' + os.path.relpath(path, VERIF))
    with open(path, 'w') as fh:
        json.dump(rec, fh, indent=1, ensure_ascii=True)
    return path


def clear_replays(prop):
    d = os.path.join(EVID, 'replays', prop)
    if os.path.isdir(d):
        for f in os.listdir(d):
            os.remove(os.path.join(d, f))
