"""Dev aid: run the ImplInfer invariants on spine configurations (model only) and print counterexamples."""
import sys
from . import checks_compose as CC
from . import universe as UV
from .tlc import run_tlc, runcfg_module


def main(argv):
    which = argv[0] if argv else 'c02'
    tier = argv[1] if len(argv) > 1 else 'quick'
    fn = {'c02': CC.compose_configs, 'c08': CC.group_configs, 'c09': CC.repeat_configs, 'c10': CC.width_configs,
          'c05': CC.empty_configs, 'c01': CC.literal_configs, 'c04': CC.quant_configs}[which]
    invs = argv[2:] or ['InferWrapSafe', 'InferWrapAgree', 'InferRepeatSound']
    for c in fn(tier, 0):
        if c.get('module') != 'PregexSpine':
            continue
        for inv in invs:
            cfg = 'SPECIFICATION Spec\nINVARIANT %s\nCHECK_DEADLOCK FALSE\n' % inv
            r = run_tlc('PregexSpine', cfg, runcfg_module(c['defs'], extends=['Integers']), workers=8, timeout=3000)
            print(c['name'], inv, 'distinct', r['distinct'], 'violated', r['violated'])
            if r['violated']:
                out = r['out']
                i = out.find('Error: Invariant')
                print(out[i:i + 3000])


if __name__ == '__main__':
    main(sys.argv[1:])
