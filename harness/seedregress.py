"""Re-run the registered check of every stored seeded fault (/verif/seeded/<id>) against a scratch worktree of /repo HEAD
with the fault applied, and refresh meta.json (detected_by, checks).  A fault annotated "outside_specified_zone" is
expected to stay undetected.

usage: python -m harness.seedregress [-j N] [id-prefix ...]
"""
import concurrent.futures as cf
import glob
import json
import os
import shutil
import subprocess
import sys
import tempfile
import time

VERIF = os.path.dirname(os.path.dirname(os.path.abspath(__file__)))


def sh(cmd, cwd=None, env=None, timeout=6000):
    e = dict(os.environ)
    e.update(env or {})
    p = subprocess.run(cmd, cwd=cwd, env=e, capture_output=True, text=True, timeout=timeout)
    return p.returncode, p.stdout + p.stderr


def one(d):
    sid = os.path.basename(d)
    meta = json.load(open(os.path.join(d, 'meta.json')))
    prop = meta['property']
    scratch = tempfile.mkdtemp(prefix='pregex-seedre.', dir='/var/tmp')
    wt = scratch + '/wt'
    try:
        sh(['git', '-C', '/repo', 'worktree', 'add', '--detach', wt, 'HEAD'])
        rc, o = sh(['git', '-C', wt, 'apply', os.path.join(d, 'patch.diff')])
        if rc != 0:
            return sid, 'patch does not apply', None
        t0 = time.time()
        rc, o = sh([os.path.join(VERIF, 'vf'), 'check', prop, '--tier', os.environ.get('SEED_TIER', 'quick')], cwd=VERIF,
                   env={'VERIF_REPO': wt, 'VERIF_EVIDENCE_DIR': scratch + '/evidence'})
        viol = [l for l in o.splitlines() if l.startswith('VIOLATION')]
        first = ''
        lines = o.splitlines()
        for i, l in enumerate(lines):
            if l.startswith('VIOLATION') and i > 0:
                first = lines[i - 1].strip()[:300]
                break
        meta['checks'] = {prop: {'exit': rc, 'violations': len(viol), 'first': first, 'wall_s': round(time.time() - t0, 1)}}
        if rc not in (0, 1):
            meta['checks'][prop]['tail'] = o[-1500:]
            print(sid, 'exit', rc, o[-1500:], flush=True)
        meta['detected_by'] = [prop] if rc == 1 and viol else []
        meta['rechecked'] = time.strftime('%Y-%m-%d %H:%M')
        json.dump(meta, open(os.path.join(d, 'meta.json'), 'w'), indent=1)
        return sid, 'exit=%d violations=%d' % (rc, len(viol)), meta['detected_by']
    finally:
        sh(['git', '-C', '/repo', 'worktree', 'remove', '--force', wt])
        shutil.rmtree(scratch, ignore_errors=True)


def main(argv):
    j = 3
    if argv and argv[0] == '-j':
        j = int(argv[1])
        argv = argv[2:]
    dirs = sorted(d for d in glob.glob(os.path.join(VERIF, 'seeded', '*')) if os.path.isdir(d))
    if argv:
        dirs = [d for d in dirs if any(os.path.basename(d).startswith(a) for a in argv)]
    bad = 0
    with cf.ThreadPoolExecutor(j) as ex:
        for sid, status, det in ex.map(one, dirs):
            meta = json.load(open(os.path.join(VERIF, 'seeded', sid, 'meta.json')))
            expected_miss = bool(meta.get('outside_specified_zone'))
            flag = ''
            if det is None or (not det and not expected_miss) or status.startswith('exit=2'):
                flag = '   <-- MISSED' if det is not None else '   <-- STALE'
                bad += 1
            print('%-10s %s %s%s' % (sid, status, det, flag), flush=True)
    print('%d seeds, %d missed/stale' % (len(dirs), bad))
    return 0


if __name__ == '__main__':
    sys.exit(main(sys.argv[1:]))
