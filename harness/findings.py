"""Known findings: genuine defects of the pinned tree that are recorded, not repaired.

/verif/known_findings.json is committed and never written at run time.  An entry is
  {id, property, status: "open"|"fixed", title, witness, match: {field: matcher, ...}}
`match` is a conjunction over the fields of a failure record (dotted paths allowed);
a matcher is {"eq": v} | {"re": regex} | {"in": [..]} | {"contains": s}.
Only open entries suppress; a fixed entry documents a repaired defect and suppresses nothing.
"""
import json
import os
import re

PATH = os.path.join(os.path.dirname(os.path.dirname(os.path.abspath(__file__))), 'known_findings.json')


def load():
    if not os.path.exists(PATH):
        return []
    with open(PATH) as fh:
        return json.load(fh)['findings']


def _get(rec, path):
    cur = rec
    for part in path.split('.'):
        if isinstance(cur, dict) and part in cur:
            cur = cur[part]
        else:
            return None
    return cur


def _m(matcher, value):
    if 'eq' in matcher:
        return value == matcher['eq']
    if 'in' in matcher:
        return value in matcher['in']
    if 're' in matcher:
        return value is not None and re.search(matcher['re'], str(value), re.S) is not None
    if 'contains' in matcher:
        return value is not None and matcher['contains'] in str(value)
    raise ValueError(matcher)


def matches(entry, rec):
    return all(_m(m, _get(rec, f)) for f, m in entry['match'].items())


def classify(prop, failures):
    """Split failures into (listed: {entry id: [recs]}, unlisted: [recs])."""
    entries = [e for e in load() if e['property'] == prop and e['status'] == 'open']
    listed, unlisted = {}, []
    for rec in failures:
        for e in entries:
            if matches(e, rec):
                listed.setdefault(e['id'], []).append(rec)
                break
        else:
            unlisted.append(rec)
    return entries, listed, unlisted
