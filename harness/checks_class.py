"""C06, C07: character-class constructors and class algebra (PregexClass)."""
import random
import time

from . import universe as UV
from .runner import run_generated, report, tier_and_seed

CLASS_INV = ['IvNormal', 'DenoteIsComplement']
CLASS_PROPS = ['Pointwise', 'DoubleNeg']

ASSUME = ['membership of every code point 0..0x10FFFF is decided by running (?:P)+ over the string of all code points with CPython re',
          'code points that only the Unicode-aware shorthands add beyond their ASCII cores are ignored exactly when the ASCII core '
          'of that shorthand is included in an operand or in the result (as the property states)',
          'argument tuples and algebra depth are bounded as stated; TLA+ value parser and term interpreter are trusted']

ADJ_WINDOWS = [(43, 44, 45, 46, 47, 48), (90, 91, 92, 93, 94, 95, 96, 97), (44, 45, 46), (56, 57, 58, 59), (97, 98, 99, 100, 101, 102),
               (36, 45, 92, 93, 94, 97), (47, 48, 49, 57, 58, 65)]


def cfg_text():
    return 'SPECIFICATION Spec\n' + ''.join('INVARIANT %s\n' % i for i in CLASS_INV) + \
        ''.join('PROPERTY %s\n' % p for p in CLASS_PROPS) + 'CHECK_DEADLOCK FALSE\n'


def class_config(name, cargs=(), maxfrom=0, cwin=(97, 98), csel=(), maxd=0, workers=8, timeout=3000):
    return dict(name=name, module='PregexClass', cfg=cfg_text(), workers=workers, timeout=timeout,
                invariants=CLASS_INV + CLASS_PROPS,
                defs={'CArgs': set(cargs), 'MaxFrom': maxfrom, 'CWin': tuple(cwin), 'CSel': set(csel), 'MaxD': maxd})


def ctor_args(tier, seed):
    rnd = random.Random(seed)
    base = [92, 93, 91, 94, 45, 47, 36, 46, 97, 98, 122, 48, 57, 10, 32, 95, 96, 44, 0x10FFFF, 0]
    toks = ['Backslash', 'Dollar', 'Newline', 'Space', 'Euro']
    bads = ['multi', 'multiesc', 'int', 'none']      # '' and non-token Pregex arguments are unspecified: judged only by C03
    if tier == 'quick':
        chars = base[:9] + rnd.sample([c for c in UV.CATALOGUE if c not in base], 2)
        return [('c', c) for c in chars] + [('tok', t) for t in toks[:2]] + [('bad', b) for b in bads]
    chars = base + rnd.sample([c for c in UV.CATALOGUE if c not in base], 8)
    return [('c', c) for c in chars] + [('tok', t) for t in toks] + [('bad', b) for b in bads + ['list', 'float']]


def ctor_configs(tier, seed):
    args = ctor_args(tier, seed)
    cfgs = [class_config('constructors-from3', args if tier != 'quick' else args, 3 if tier == 'quick' else 3, csel={'ctor', 'named', 'tokens'})]
    # all ordered pairs of the catalogue for AnyBetween / pairs for AnyFrom
    cat = UV.CATALOGUE if tier != 'quick' else sorted(set(UV.META + UV.INCLASS + [97, 122, 48, 57, 9, 10, 13, 32, 0, 0x10FFFF, 0xD800, 0xDF]))
    cfgs.append(class_config('between-all-pairs', [('c', c) for c in cat] + [('tok', 'Backslash'), ('tok', 'Dollar')], 2 if tier != 'quick' else 1,
                             csel={'ctor'}))
    return cfgs


def algebra_configs(tier, seed):
    rnd = random.Random(seed)
    wins = list(ADJ_WINDOWS)
    if tier == 'quick':
        pick = [wins[0], wins[1][:6]]
        pick.append(tuple(sorted(rnd.sample(range(40, 100), 5))))
        return [class_config('algebra-depth1-%d' % i, cwin=w, csel={'alg', 'algnamed', 'operands'}, maxd=1) for i, w in enumerate(pick)] + \
               [class_config('algebra-depth2', cwin=(97, 98, 99, 101), csel={'alg', 'operands'}, maxd=2)]
    for _ in range(6):
        wins.append(tuple(sorted(rnd.sample(range(33, 127), 6))))
    wins.append((0x10FFFD, 0x10FFFE, 0x10FFFF, 0, 1, 2))
    return [class_config('algebra-depth1-%d' % i, cwin=w, csel={'alg', 'algnamed', 'operands', 'from3'}, maxd=1) for i, w in enumerate(wins)] + \
           [class_config('algebra-depth2-%d' % i, cwin=w, csel={'alg', 'operands'}, maxd=2) for i, w in enumerate([(97, 98, 99, 101, 102), (44, 45, 46, 47, 92)])]


def random_class_configs(tier, seed, n_quick=3000, n_thorough=40000):
    import json
    from . import randterms as RT
    terms = RT.generate_class_terms(seed * 7919 + 3, n_quick if tier == 'quick' else n_thorough)
    out = []
    for i in range(0, len(terms), 20000):
        c = class_config('random-class-programs-%d' % (i // 20000))
        c.update(module='PregexClassTerms', workers=1, invariants=['AllConsumed'],
                 cfg='SPECIFICATION TSpec\nPOSTCONDITION AllConsumed\nCHECK_DEADLOCK FALSE\n',
                 extra_files={'cterms.json': json.dumps([RT.to_json(t) for t in terms[i:i + 20000]])})
        out.append(c)
    big = RT.big_class_terms(seed, 150 if tier == 'quick' else 3000)
    c = class_config('big-class-programs')
    c.update(module='PregexClassTerms', workers=1, invariants=['AllConsumed'],
             cfg='SPECIFICATION TSpec\nPOSTCONDITION AllConsumed\nCHECK_DEADLOCK FALSE\n',
             extra_files={'cterms.json': json.dumps([RT.to_json(t) for t in big])})
    out.append(c)
    return out


def alg_configs(tier):
    """Layer I for classes.py (ImplClassAlg): the interval loops under every iteration order; model only."""
    inv = ['UnionCorrect', 'SubCorrect', 'RangesWellFormed', 'Termination']
    cfg = 'SPECIFICATION Spec\nINVARIANT UnionCorrect\nINVARIANT SubCorrect\nINVARIANT RangesWellFormed\nPROPERTY Termination\nCHECK_DEADLOCK FALSE\n'
    sizes = [('or', 4, 2, 1), ('sub', 4, 2, 1)] if tier == 'quick' else [('or', 4, 2, 2), ('sub', 4, 2, 2), ('or', 5, 2, 1), ('sub', 5, 2, 1)]
    return [dict(name='ImplClassAlg %s window=%d ranges<=%d chars<=%d' % s, module='ImplClassAlg', model_only=True, invariants=inv, workers=8,
                 cfg=cfg, timeout=3000, defs={'AlgWin': set(range(97, 97 + s[1])), 'MaxR': s[2], 'MaxC': s[3], 'AlgOp': s[0]}) for s in sizes]


def text_configs(tier):
    """Layer I for classes.py at text level (ImplClassText): writing a class down and reading it back, every item order; model only."""
    cfg = 'SPECIFICATION Spec\nINVARIANT RoundTrip\nCHECK_DEADLOCK FALSE\n'
    meta = {92, 94, 91, 93, 45, 47, 36, 97, 110}
    sizes = [(meta, 2, 2)] if tier == 'quick' else [(meta | {44, 46}, 2, 2), ({45, 47, 92, 93, 97}, 3, 3)]
    return [dict(name='ImplClassText window=%d ranges<=%d chars<=%d' % (len(w), r, c), module='ImplClassText', model_only=True,
                 invariants=['RoundTrip'], workers=8, cfg=cfg, timeout=3000, defs={'TxtWin': set(w), 'MaxR': r, 'MaxC': c}) for w, r, c in sizes]


def hash_seeds(tier, seed):
    return sorted({0, 1, 2, seed % (2 ** 32)}) if tier == 'quick' else list(range(16))


def generic(prop, facets, rule, configs_fn, args_tier=None):
    tier, seed = tier_and_seed(args_tier)
    t0 = time.time()
    seeds = hash_seeds(tier, seed)
    res = run_generated((alg_configs(tier) if prop == 'C07' else text_configs(tier)) + configs_fn(tier, seed) + random_class_configs(tier, seed),
                        'harness.judge_class.judge', {'prop': prop, 'facets': sorted(facets)},
                        seeds=seeds, mode='all', batch=200)
    from . import checks_compose as CC
    CC.heap_stage(prop, tier, seeds, res)
    st = res.agg.stats
    cov = {'states': res.states, 'transitions': res.transitions, 'traces_validated_against_impl': st.get('cases', 0),
           'evaluations': st.get('cases', 0), 'distinct_nontrivial': st.get('nontrivial', 0), 'rule': rule,
           'samples': res.agg.samples[:8], 'tlc_runs': res.runs, 'hash_seeds': seeds,
           'facet_counts': {k[6:]: v for k, v in st.items() if k.startswith('facet:')}, 'facets_judged': sorted(facets),
           'outcomes': {k[8:]: v for k, v in st.items() if k.startswith('outcome:')}, 'exhaustive': True,
           'membership': 'every code point 0..0x10FFFF, per distinct emitted class text'}
    return report(prop, tier, seed, res.agg.failures, cov, time.time() - t0, ASSUME, res.model_violations)


def check_C06(tier=None):
    return generic('C06', {'crash', 'exc', 'accepted', 'compile', 'denotation'},
                   'every constructor call of the enumerated argument space (AnyFrom/AnyButFrom up to arity 3 over the argument set, '
                   'AnyBetween/AnyButBetween over all ordered pairs, every named class, every token) is replayed under every hash seed '
                   'and its matched set compared with the specified interval list over the full code-point range; non-trivial = every state',
                   ctor_configs, tier)


def check_C07(tier=None):
    return generic('C07', {'crash', 'exc', 'accepted', 'compile', 'denotation'},
                   'class terms A op B, ~A, (A op B) op C over windows of adjacent code points (every interval geometry), replayed under every '
                   'hash seed; non-trivial = a term with at least one algebra operator',
                   algebra_configs, tier)


CHECKS = {'C06': check_C06, 'C07': check_C07}
