"""Development aid: run one class-algebra configuration with every facet judged."""
import collections, json, sys
from .runner import run_generated
from . import checks_class as CC


def main(argv):
    win = tuple(int(x) for x in argv[0].split(','))
    sel = set(argv[1].split(','))
    res = run_generated([CC.class_config('probe', cwin=win, csel=sel, maxd=int(argv[2]))], 'harness.judge_class.judge',
                        {'prop': 'C07', 'facets': ['crash', 'exc', 'accepted', 'compile', 'denotation', 'export']},
                        seeds=(0,), mode='all', batch=200)
    print(res.states, dict(res.agg.stats))
    g = collections.defaultdict(list)
    for f in res.agg.failures:
        g[(f['facet'], f['detail'].get('observed', ''), f['term_raw'][0])].append(f)
    for k, v in sorted(g.items(), key=lambda kv: -len(kv[1])):
        print(len(v), k)
        for f in v[:int(argv[3]) if len(argv) > 3 else 5]:
            print('    ', f['term'], json.dumps(f['detail'])[:250])


if __name__ == '__main__':
    main(sys.argv[1:])
