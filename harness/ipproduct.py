"""Pipeline A (C18): extract an NFA from the EMITTED extensible IPv4/IPv6 pattern with CPython's own
regex parser, and let TLC explore its product with the reference automaton of the specification."""
import json
import re
import re._constants as sc
import re._parser as sp
import subprocess
import sys
import os

from .tlc import run_tlc, runcfg_module, MachineryError

FLAGS = re.M | re.S
MAXCP = 0x10FFFF


class Unsupported(Exception):
    pass


def charset(op, av):
    """-> (intervals, negated)"""
    if op == sc.LITERAL:
        return [(av, av)], False
    if op == sc.NOT_LITERAL:
        return [(av, av)], True
    if op == sc.ANY:
        return [], True
    if op == sc.IN:
        neg, items = False, []
        for o, a in av:
            if o == sc.NEGATE:
                neg = True
            elif o == sc.LITERAL:
                items.append((a, a))
            elif o == sc.RANGE:
                items.append(tuple(a))
            elif o == sc.CATEGORY:
                from .judge_class import intervals
                items.extend(intervals({sc.CATEGORY_DIGIT: r'\d', sc.CATEGORY_WORD: r'\w', sc.CATEGORY_SPACE: r'\s',
                                        sc.CATEGORY_NOT_DIGIT: r'\D', sc.CATEGORY_NOT_WORD: r'\W', sc.CATEGORY_NOT_SPACE: r'\S'}[a]))
            else:
                raise Unsupported(str(o))
        return items, neg
    raise Unsupported(str(op))


def build_nfa(pattern):
    tree = sp.parse(pattern, FLAGS)
    trans, cnt = [], [0]

    def new():
        cnt[0] += 1
        return cnt[0] - 1

    def comp(seq, s):
        for op, av in seq:
            if op in (sc.LITERAL, sc.NOT_LITERAL, sc.ANY, sc.IN):
                d = new()
                trans.append((s, charset(op, av), d))
                s = d
            elif op == sc.SUBPATTERN:
                if av[1] or av[2]:
                    raise Unsupported('inline flags')
                s = comp(av[3], s)
            elif op == sc.BRANCH:
                d = new()
                for alt in av[1]:
                    a = new()
                    trans.append((s, None, a))
                    e = comp(alt, a)
                    trans.append((e, None, d))
                s = d
            elif op in (sc.MAX_REPEAT, sc.MIN_REPEAT):
                lo, hi, body = av
                for _ in range(lo):
                    s = comp(body, s)
                if hi == sc.MAXREPEAT:
                    a = new()
                    trans.append((s, None, a))
                    e = comp(body, a)
                    trans.append((e, None, a))
                    s = a
                else:
                    d = new()
                    for _ in range(hi - lo):
                        trans.append((s, None, d))
                        s = comp(body, s)
                    trans.append((s, None, d))
                    s = d
            else:
                raise Unsupported(str(op))
        return s
    s0 = new()
    f = comp(tree, s0)
    return cnt[0], trans, s0, f


def member(cs, c):
    items, neg = cs
    return any(a <= c <= b for a, b in items) != neg


def atoms(trans, extra_points):
    pts = {0, MAXCP + 1}
    for _, cs, _ in trans:
        if cs is None:
            continue
        for a, b in cs[0]:
            pts.add(a)
            pts.add(b + 1)
    for a, b in extra_points:
        pts.add(a)
        pts.add(b + 1)
    pts = sorted(p for p in pts if 0 <= p <= MAXCP + 1)
    return [(pts[i], pts[i + 1] - 1) for i in range(len(pts) - 1)]


REF_CLASSES = [(48, 57), (46, 46), (58, 58), (97, 102), (65, 70), (48, 48), (49, 49), (50, 50), (51, 52), (53, 53), (54, 57)]


def nfa_json(pattern, kind):
    n, trans, s0, f = build_nfa(pattern)
    eps = {}
    mv = {}
    for s, c, d in trans:
        if c is None:
            eps.setdefault(s, []).append(d)
        else:
            mv.setdefault(s, []).append((c, d))

    def close(S):
        st, S = list(S), set(S)
        while st:
            x = st.pop()
            for y in eps.get(x, ()):
                if y not in S:
                    S.add(y)
                    st.append(y)
        return S
    ats = atoms(trans, REF_CLASSES)
    # keep one representative per atom; atoms on which the NFA has no move at all and the reference is dead collapse into one
    reps = []
    seen_sig = set()
    from .judge_class import extras
    unspec = extras('d')
    for lo, hi in ats:
        if any(a <= lo <= b for a, b in unspec):
            continue          # non-ASCII digits in numerals: unspecified (DESIGN section 4), not part of the alphabet
        sig = tuple(sorted((s, d) for s, lst in mv.items() for cs, d in lst if member(cs, lo)))
        refsig = tuple(a <= lo <= b for a, b in REF_CLASSES)
        if (sig, refsig) in seen_sig:
            continue
        seen_sig.add((sig, refsig))
        reps.append(lo)
    delta = []
    for q in range(n):
        row = []
        for c in reps:
            tg = set()
            for cs, d in mv.get(q, ()):
                if member(cs, c):
                    tg |= close({d})
            row.append(sorted(tg))
        delta.append(row)
    return {'kind': kind, 'n': n, 'start': sorted(close({s0})), 'final': f, 'syms': reps, 'delta': delta}, n, len(ats), len(reps)


def run(tier, seed, res):
    """Called from check_C18: runs the product exploration for IPv4 and IPv6 and adds failures to res."""
    from .farm import REPO
    code = ("import sys; sys.path.insert(0, %r); import warnings; warnings.simplefilter('ignore'); "
            "from pregex.meta.essentials import IPv4, IPv6; import json; IPv4(); IPv6(); "
            "print(json.dumps({'v4': str(IPv4(is_extensible=True)), 'v6': str(IPv6(is_extensible=True))}))") % os.path.join(REPO, 'src')
    variants = {'v4': {}, 'v6': {}}
    for hs in ((0, 2, 5) if tier == 'quick' else (0, 1, 2, 3, 5, 6, 10, 13)):
        out = subprocess.run(['/venv/bin/python', '-c', code], capture_output=True, text=True, env=dict(os.environ, PYTHONHASHSEED=str(hs)))
        if out.returncode != 0:
            raise MachineryError('cannot obtain the emitted IP patterns: ' + out.stderr[-500:])
        got = json.loads(out.stdout.strip().splitlines()[-1])
        for kd in ('v4', 'v6'):
            variants[kd].setdefault(got[kd], hs)           # the emitted text may depend on the hash seed (class unions)
    cov = {'automaton_path': {}}
    # DFAEquivalentToPredicate on short strings
    for kind, alpha, inv, ml in (('v4', {48, 49, 50, 53, 54, 46}, 'V4Equiv', 7 if tier == 'quick' else 8), ('v6', {49, 97, 58}, 'V6Equiv', 9 if tier == 'quick' else 11)):
        r = run_tlc('MC_IPRef', 'SPECIFICATION Spec\nINVARIANT %s\nCHECK_DEADLOCK FALSE\n' % inv,
                    runcfg_module({'IPAlpha': alpha, 'MaxLen': ml, 'Pars': set(), 'DateFmtLists': set(), 'DateCands': set(), 'DateExts': set(), 'IPAddrs': set(), 'IPCtxs': set(), 'DecBasePars': set(), 'DecMids': set(), 'DecCtxs': set()},
                                  extends=['Integers']), workers=8)
        res.states += r['distinct']
        res.transitions += r['generated']
        res.runs.append({'name': 'MC_IPRef ' + kind, 'distinct': r['distinct'], 'generated': r['generated'], 'invariants': [inv]})
        if r['violated']:
            res.model_violations.append(('MC_IPRef ' + kind, r['violated'], r['out'][-2000:]))
    for kind, pat_text, hseed in [(kd, t, h) for kd in ('v4', 'v6') for t, h in variants[kd].items()]:
        try:
            doc, n, nat, nrep = nfa_json(pat_text, kind)
        except Unsupported as e:
            cov['automaton_path'][kind] = 'unavailable: construct %s not supported by the extractor' % e
            continue
        states = []

        def consumer(fh):
            from .farm import split_states
            from .tlaval import parse_state
            for b in split_states(fh, 500):
                for raw in b:
                    states.append(parse_state(raw))
        r = run_tlc('MC_IPProduct', 'SPECIFICATION Spec\nVIEW View\nCHECK_DEADLOCK FALSE\n', runcfg_module({}, extends=['Integers']),
                    workers=1, consumer=consumer, extra_files={'nfa.json': json.dumps(doc)}, timeout=3000)
        res.states += r['distinct']
        res.transitions += r['generated']
        res.runs.append({'name': 'MC_IPProduct ' + kind, 'distinct': r['distinct'], 'generated': r['generated'],
                         'nfa_states': n, 'atoms': nat, 'symbols': nrep, 'invariants': ['SameLanguage (judged per dumped state)']})
        # judge every product state, and replay its witness on the real library and on ipaddress
        wit = []
        for st in states:
            w = ''.join(map(chr, st['w']))
            nfa_acc = doc['final'] in set(st['S'])
            wit.append((w, nfa_acc, st['r']))
        chk = subprocess.run(['/venv/bin/python', '-c', WITNESS_CODE % (os.path.join(REPO, 'src'), kind)],
                             input=json.dumps([w for w, _, _ in wit]), capture_output=True, text=True, env=dict(os.environ, PYTHONHASHSEED=str(hseed)))
        if chk.returncode != 0:
            raise MachineryError('witness replay failed: ' + chk.stderr[-800:])
        verdicts = json.loads(chk.stdout.strip().splitlines()[-1])
        for (w, nfa_acc, rstate), (lib, ipa, refacc, libplain) in zip(wit, verdicts):
            res.agg.stats['cases'] = res.agg.stats.get('cases', 0) + 1
            if lib != nfa_acc:
                raise MachineryError('extracted automaton disagrees with the library on %r (nfa %s, library %s)' % (w, nfa_acc, lib))
            if ipa is not None and ipa != refacc:
                raise MachineryError('reference automaton disagrees with ipaddress on %r (ref %s, ipaddress %s)' % (w, refacc, ipa))
            if lib != refacc:
                res.agg.failures.append({'property': 'C18', 'kind': 'ipproduct', 'replay_module': 'ipproduct', 'facet': 'language',
                                         'term': ('IPv4' if kind == 'v4' else 'IPv6') + '(is_extensible=True)', 'spelling': 'class',
                                         'text': w, 'ipkind': kind, 'hashseed': hseed,
                                         'detail': {'text': w, 'library_accepts': lib, 'reference_accepts': refacc, 'ipaddress': ipa}})
            if libplain != refacc:
                # the non-extensible pattern only adds assertions about the surroundings: on a whole string they are vacuous
                res.agg.failures.append({'property': 'C18', 'kind': 'ipproduct', 'replay_module': 'ipproduct', 'facet': 'language',
                                         'term': ('IPv4' if kind == 'v4' else 'IPv6') + '()', 'spelling': 'class',
                                         'text': w, 'ipkind': kind, 'hashseed': hseed,
                                         'detail': {'text': w, 'library_accepts': libplain, 'reference_accepts': refacc, 'ipaddress': ipa}})
        cov['automaton_path']['%s (hash seed %s)' % (kind, hseed)] = 'product explored: %d product states, NFA %d states, %d atoms, %d symbols' % (r['distinct'], n, nat, nrep)
        res.agg.samples.append({'product_witness': wit[len(wit) // 2][0], 'kind': kind})
    return cov


WITNESS_CODE = r'''
import sys, json, ipaddress, warnings
warnings.simplefilter('ignore')
sys.path.insert(0, %r)
kind = %r
from pregex.meta.essentials import IPv4, IPv6
q = IPv4() if kind == 'v4' else IPv6()          # the standalone form is built first: the extensible one must not depend on it
p = IPv4(is_extensible=True) if kind == 'v4' else IPv6(is_extensible=True)
def ref4(t):
    ps = t.split('.')
    return len(ps) == 4 and all(x.isascii() and x.isdigit() and (len(x) == 1 or x[0] != '0') and len(x) <= 3 and int(x) <= 255 for x in ps)
def ipa(t):
    if not t.isascii(): return None
    try:
        (ipaddress.IPv4Address if kind == 'v4' else ipaddress.IPv6Address)(t)
        return True
    except ValueError:
        return False
def hexg(x): return 1 <= len(x) <= 4 and all(c in '0123456789abcdefABCDEF' for c in x)
def ref6(t):
    if t.count('::') > 1 or ':::' in t: return False
    if '::' in t:
        l, r = t.split('::')
        ls = l.split(':') if l else []
        rs = r.split(':') if r else []
        return all(hexg(x) for x in ls + rs) and len(ls) + len(rs) <= 7
    ps = t.split(':')
    return len(ps) == 8 and all(hexg(x) for x in ps)
out = []
for w in json.load(sys.stdin):
    out.append([p.is_exact_match(w), ipa(w), (ref4 if kind == 'v4' else ref6)(w), q.is_exact_match(w)])
print(json.dumps(out))
'''


def replay_record(rec):
    from .farm import REPO
    if rec.get('kind') == 'ipfile':
        import tempfile, shutil
        class _R:
            pass
        r = _R(); r.agg = _R(); r.agg.failures = []; r.agg.stats = {}
        d = tempfile.mkdtemp(prefix='pregex-verif.replay.', dir=os.environ.get('VERIF_SCRATCH', '/var/tmp'))
        try:
            rows = file_probe(r, d)
        finally:
            shutil.rmtree(d, ignore_errors=True)
        print(json.dumps(rows, indent=1))
        print('REPRODUCED' if r.agg.failures else 'not reproduced on the current tree')
        return 1 if r.agg.failures else 0
    chk = subprocess.run(['/venv/bin/python', '-c', WITNESS_CODE % (os.path.join(REPO, 'src'), rec['ipkind'])],
                         input=json.dumps([rec['text']]), capture_output=True, text=True, env=dict(os.environ, PYTHONHASHSEED=str(rec.get('hashseed', 0))))
    lib, ipa, ref, libplain = json.loads(chk.stdout.strip().splitlines()[-1])[0]
    if rec.get('term', '').endswith('()'):
        lib = libplain
    print('text %r: library accepts %s, reference %s, ipaddress %s' % (rec['text'], lib, ref, ipa))
    print('REPRODUCED' if lib != ref else 'not reproduced on the current tree')
    return 1 if lib != ref else 0


FILE_PROBE = r'''
import sys, json, os, tempfile, warnings
warnings.simplefilter('ignore')
sys.path.insert(0, %r)
from pregex.meta.essentials import IPv4, IPv6
scratch = %r
planted = {'v4': ['10.20.30.40', '192.168.100.254', '1.2.3.4', '255.255.255.255'], 'v6': ['2001:db8::8a2e:370:7334', 'fe80::1', '::ffff:102:304', '1:2:3:4:5:6:7:8']}
out = []
for kind, mk in (('v4', IPv4), ('v6', IPv6)):
    # an address across every multiple of 8192 and of 65536 up to 140 000, split so that the part before the boundary is itself an address
    text = []
    n = 0
    bounds = sorted(set(list(range(8192, 140000, 8192)) + [65536, 131072]))
    k = 0
    for b in bounds:
        a = planted[kind][k %% len(planted[kind])]
        k += 1
        cut = len(a) - 1                       # the last character falls behind the boundary
        fill = b - cut - n                    # the address starts at b - cut: exactly its last character lies behind b
        if fill < 2:
            continue
        line = ('lorem ipsum ' * (fill // 12 + 1))[:fill - 1] + ' '
        text.append(line); n += len(line)
        text.append(a + '\n'); n += len(a) + 1
    text = ''.join(text) + 'tail ' + planted[kind][0] + ' end'
    fd, path = tempfile.mkstemp(suffix='.txt', dir=scratch)
    with os.fdopen(fd, 'w', encoding='utf-8', newline='') as fh:
        fh.write(text)
    for compiled in (False, True):
        p = mk()
        if compiled:
            p.compile()
        s_res = p.get_matches(text)
        f_res = p.get_matches(path, is_path=True)
        f_it = list(p.iterate_matches(path, is_path=True))
        f_pos = p.get_matches_and_pos(path, is_path=True)
        s_pos = p.get_matches_and_pos(text)
        ok_planted = all(text[s:e] == m for m, s, e in s_pos) and len(s_res) == k + 1
        out.append({'kind': kind, 'compiled': compiled, 'chars': len(text), 'string_matches': len(s_res), 'file_matches': len(f_res),
                    'same': s_res == f_res and f_it == s_res and f_pos == s_pos, 'planted_found': ok_planted,
                    'first_difference': next(([a, b] for a, b in zip(s_res + [None], f_res + [None]) if a != b), None)})
    os.unlink(path)
print(json.dumps(out))
'''


def file_probe(res, scratch):
    """C18, embedded occurrences in a long file: addresses placed across every multiple of 8 192 and 65 536 characters of a
    140 000-character file must be found exactly as in the same text given as a string (and all planted addresses are found)."""
    from .farm import REPO
    chk = subprocess.run(['/venv/bin/python', '-c', FILE_PROBE % (os.path.join(REPO, 'src'), scratch)], capture_output=True, text=True)
    if chk.returncode != 0:
        res.agg.failures.append({'property': 'C18', 'kind': 'ipfile', 'replay_module': 'ipproduct', 'facet': 'crash', 'term': 'IPv4()/IPv6() on a file source',
                                 'spelling': 'class', 'detail': {'stderr': chk.stderr[-600:]}})
        return []
    rows = json.loads(chk.stdout.strip().splitlines()[-1])
    for r in rows:
        res.agg.stats['cases'] = res.agg.stats.get('cases', 0) + 1
        if not r['same'] or not r['planted_found']:
            res.agg.failures.append({'property': 'C18', 'kind': 'ipfile', 'replay_module': 'ipproduct', 'facet': 'long-file',
                                     'term': ('IPv4()' if r['kind'] == 'v4' else 'IPv6()') + (' compiled' if r['compiled'] else ''), 'spelling': 'class',
                                     'detail': r})
    return rows
