"""Development aid: run the oracle calibration on one window."""
import sys, time
from . import checks_compose as CC
from .runner import run_generated


def main(argv):
    win = tuple(int(x) for x in argv[0].split(','))
    cfg = CC.spine_config('calib', [win], int(argv[1]), CC.ALL_OPS, CC.FULL_POOL | {'focusall'}, semlen=int(argv[2]))
    t = time.time()
    res = run_generated([cfg], 'harness.judge_compose.judge', {'prop': 'C02', 'facets': ['behaviour']})
    print(res.states, dict(res.agg.stats), round(time.time() - t, 1))
    for f in res.agg.failures[:8]:
        print(f['facet'], f['term'], str(f['detail'])[:600])
    for mv in res.model_violations[:1]:
        print(mv[0], mv[1], mv[2][-1500:])


if __name__ == '__main__':
    main(sys.argv[1:])
