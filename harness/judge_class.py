"""Judge states of the character-class machine (PregexClass) against the library.

Membership is decided over the FULL code-point range 0..0x10FFFF: the emitted pattern P
is run as (?:P)+ over the string of all code points, whose match spans are exactly the
maximal intervals of matched code points.  Facets:

  crash       non-library exception
  exc         library exception the specification does not allow here
  accepted    a class was returned where the specification requires an exception
  compile     emitted pattern rejected by re
  denotation  matched set differs from the specified set (outside the don't-care zone)
  export      get_pattern() not printable or not equivalent
"""
import collections
import re

from .tlaval import parse_state
from . import build as B

import pregex.core.classes as cl
import pregex.core.tokens as tk
from pregex.core.pre import Pregex

FLAGS = re.M | re.S
ALL = ''.join(map(chr, range(0x110000)))
_cache = {}


def intervals(pattern):
    """Maximal intervals [(lo, hi)] of code points matched by a one-character pattern."""
    r = _cache.get(pattern)
    if r is None:
        rc = re.compile('(?:%s)+' % pattern, FLAGS)
        r = tuple((m.start(), m.end() - 1) for m in rc.finditer(ALL))
        if len(_cache) > 50000:
            _cache.clear()
        _cache[pattern] = r
    return r


def sub_iv(a, b):
    """a minus b on sorted disjoint interval lists."""
    out = []
    j = 0
    for lo, hi in a:
        cur = lo
        while j < len(b) and b[j][1] < cur:
            j += 1
        k = j
        while k < len(b) and b[k][0] <= hi:
            if b[k][0] > cur:
                out.append((cur, b[k][0] - 1))
            cur = max(cur, b[k][1] + 1)
            k += 1
        if cur <= hi:
            out.append((cur, hi))
    return out


def union_iv(a, b):
    xs = sorted(list(a) + list(b))
    out = []
    for lo, hi in xs:
        if out and lo <= out[-1][1] + 1:
            out[-1] = (out[-1][0], max(out[-1][1], hi))
        else:
            out.append((lo, hi))
    return out


_extras = {}


def extras(kind):
    """Code points that only the Unicode-aware shorthand adds beyond its ASCII core."""
    if kind not in _extras:
        full = {'d': r'\d', 's': r'\s', 'w': r'\w'}[kind]
        core = {'d': [(48, 57)], 's': [(9, 13), (32, 32)], 'w': [(48, 57), (65, 90), (95, 95), (97, 122)]}[kind]
        _extras[kind] = sub_iv(list(intervals(full)), core)
    return _extras[kind]


def arg(a):
    if a[0] == 'c':
        return chr(a[1])
    if a[0] == 'tok':
        return getattr(tk, a[1])()
    return {'multi': 'ab', 'multiesc': '\\n', 'int': 5, 'none': None, 'list': ['a'], 'emptystr': '', 'pregex': Pregex('ab'),
            'float': 1.5}[a[1]]


def build_c(t):
    o = t[0]
    if o == 'CFrom':
        return (cl.AnyButFrom if t[1] else cl.AnyFrom)(*[arg(a) for a in t[2][1:]])
    if o == 'CBetween':
        return (cl.AnyButBetween if t[1] else cl.AnyBetween)(arg(t[2]), arg(t[3]))
    if o == 'CNamed':
        return getattr(cl, ('AnyBut' if t[1] else 'Any') + t[2])()
    if o == 'CWord':
        return (cl.AnyButWordChar if t[1] else cl.AnyWordChar)(is_global=t[2])
    if o == 'CAny':
        return cl.Any()
    if o == 'CChar':
        return chr(t[1])
    if o == 'CTok':
        return getattr(tk, t[1])()
    if o == 'CBad':
        return arg(('bad', t[1]))
    if o == 'COr':
        return build_c(t[1]) | build_c(t[2])
    if o == 'CSub':
        return build_c(t[1]) - build_c(t[2])
    if o == 'CInv':
        return ~build_c(t[1])
    raise ValueError(o)


def render_c(t):
    o = t[0]
    if o == 'CFrom':
        return '%s(%s)' % ('AnyButFrom' if t[1] else 'AnyFrom', ', '.join(render_a(a) for a in t[2][1:]))
    if o == 'CBetween':
        return '%s(%s, %s)' % ('AnyButBetween' if t[1] else 'AnyBetween', render_a(t[2]), render_a(t[3]))
    if o == 'CNamed':
        return ('AnyBut' if t[1] else 'Any') + t[2] + '()'
    if o == 'CWord':
        return '%s(is_global=%s)' % ('AnyButWordChar' if t[1] else 'AnyWordChar', t[2])
    if o == 'CAny':
        return 'Any()'
    if o == 'CChar':
        return repr(chr(t[1]))
    if o == 'CTok':
        return t[1] + '()'
    if o == 'CBad':
        return '<bad:%s>' % t[1]
    if o == 'COr':
        return '(%s | %s)' % (render_c(t[1]), render_c(t[2]))
    if o == 'CSub':
        return '(%s - %s)' % (render_c(t[1]), render_c(t[2]))
    if o == 'CInv':
        return '~%s' % render_c(t[1])
    return repr(t)


def render_a(a):
    if a[0] == 'c':
        return repr(chr(a[1]))
    if a[0] == 'tok':
        return a[1] + '()'
    return '<bad:%s>' % a[1]


def depth(t):
    if t[0] in ('COr', 'CSub'):
        return 1 + max(depth(t[1]), depth(t[2]))
    if t[0] == 'CInv':
        return 1 + depth(t[1])
    return 0


def observe_class(term, res):
    fails, info = [], {}
    try:
        p = build_c(term)
    except B.PREGEX_EXCEPTIONS as e:
        nm = type(e).__name__
        info['outcome'] = nm
        if nm not in res['ex']:
            fails.append(('exc', {'observed': nm, 'expected_ok': res['ok'], 'expected_ex': sorted(res['ex'])}))
        return fails, info
    except RecursionError:
        info['outcome'] = 'RecursionError'
        fails.append(('crash', {'observed': 'RecursionError'}))
        return fails, info
    except Exception as e:  # noqa
        info['outcome'] = type(e).__name__
        fails.append(('crash', {'observed': type(e).__name__, 'message': str(e)[:200]}))
        return fails, info
    info['outcome'] = 'ok'
    if not isinstance(p, Pregex):
        fails.append(('crash', {'observed': 'returned ' + type(p).__name__}))
        return fails, info
    emitted = str(p)
    info['emitted'] = emitted
    if not res['ok']:
        fails.append(('accepted', {'observed': 'ok', 'emitted': emitted, 'expected_ex': sorted(res['ex'])}))
        return fails, info
    try:
        got = list(intervals(emitted))
    except re.error as e:
        fails.append(('compile', {'emitted': emitted, 'error': str(e)}))
        return fails, info
    exp = [tuple(x) for x in res['den']]
    if got != exp:
        dcare = []
        for k in sorted(res['dc']):
            dcare = union_iv(dcare, extras(k))
        wrong = sub_iv(union_iv(sub_iv(got, exp), sub_iv(exp, got)), dcare)
        if wrong:
            lo, hi = wrong[0]
            fails.append(('denotation', {'emitted': emitted, 'first_wrong_codepoint': lo, 'char': repr(chr(lo)),
                                         'matched_by_emitted': any(a <= lo <= b for a, b in got),
                                         'expected_member': any(a <= lo <= b for a, b in exp),
                                         'wrong_intervals': wrong[:6]}))
    try:
        gp = p.get_pattern()
        okp = gp.isprintable() and list(intervals(gp)) == got
        if not okp:
            fails.append(('export', {'emitted': emitted, 'exported': gp}))
    except Exception as e:  # noqa
        fails.append(('export', {'emitted': emitted, 'error': '%s: %s' % (type(e).__name__, str(e)[:100])}))
    return fails, info


def judge(payload, params):
    prop = params['prop']
    facets = set(params['facets'])
    stats = collections.Counter()
    failures, samples = [], []
    primary = params.get('hashseed', 0) == params.get('primary_seed', 0)
    for raw in payload:
        st = parse_state(raw)
        term = st['cur']['t']
        res = st['res']
        res['ex'] = set(res['ex'])
        res['dc'] = set(res['dc'])
        if '*' in res['ex']:
            stats['unspecified-terms'] += 1      # e.g. an expression without any class operand: plain Python, not pregex
            continue
        dep = depth(term)
        if primary:
            stats['states'] += 1
            if (prop == 'C07' and dep >= 1) or (prop != 'C07'):
                stats['nontrivial'] += 1
        stats['cases'] += 1
        fails, info = observe_class(term, res)
        stats['outcome:' + ('ok' if info.get('outcome') == 'ok' else 'raise')] += 1
        for facet, detail in fails:
            stats['facet:' + facet] += 1
            if facet in facets:
                failures.append({'property': prop, 'kind': 'class', 'replay_module': 'judge_class', 'facet': facet,
                                 'term': render_c(term), 'term_raw': term, 'spelling': 'operator',
                                 'hashseed': params.get('hashseed', 0), 'detail': detail,
                                 'expected': {'ok': res['ok'], 'ex': sorted(res['ex']), 'den': [list(x) for x in res['den']],
                                              'dc': sorted(res['dc'])}})
        if primary and len(samples) < 3 and info.get('outcome') == 'ok' and dep >= (1 if prop == 'C07' else 0):
            samples.append({'term': render_c(term), 'emitted': info.get('emitted'),
                            'expected_intervals': [list(x) for x in res['den']][:8]})
    return {'stats': dict(stats), 'failures': failures[:200], 'samples': samples}


def _tuplify(x):
    if isinstance(x, list):
        return tuple(_tuplify(e) for e in x)
    return x


def replay_record(rec):
    term = _tuplify(rec['term_raw'])
    exp = rec['expected']
    res = {'ok': exp['ok'], 'ex': set(exp['ex']), 'den': [tuple(x) for x in exp['den']], 'dc': set(exp['dc'])}
    fails, info = observe_class(term, res)
    print('term     :', rec['term'])
    print('expected :', exp)
    print('observed :', info)
    for f in fails:
        print('failure  :', f)
    still = [f for f in fails if f[0] == rec['facet']]
    print('REPRODUCED' if still else 'not reproduced on the current tree')
    return 1 if still else 0
