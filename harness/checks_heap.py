"""C20: Pregex objects are immutable values (PregexHeap)."""
import time

from .runner import run_generated, report, tier_and_seed

ASSUME = ['object projections are str(), get_pattern(), _get_type(), _is_repeatable(), the sorted verbose class text and the '
          'match table over all texts on {a,b,c,$,newline} up to length 3 (and {a,b} up to 5)',
          'histories are bounded as stated (heap size, length); operators are the stated subset in method spelling',
          'every history is replayed in separate processes under every listed PYTHONHASHSEED']

ALL_OPS = {'refused', 'capture_n', 'capture_m', 'sub', 'concat', 'add', 'either', 'enclose', 'optional', 'one_or_more', 'exactly', 'mul', 'at_most', 'capture', 'group',
           'followed_by', 'not_preceded_by', 'match_at_line_start', 'or', 'invert', 'compile', 'get_compiled', 'match'}


def cfg():
    return 'SPECIFICATION Spec\nINVARIANT AliasSameValue\nPROPERTY HeapImmutable\nCHECK_DEADLOCK FALSE\n'


def heap_config(name, leaves, ops, maxheap, maxlen, sample=1):
    return dict(name=name, module='PregexHeap', cfg=cfg(), workers=8, invariants=['AliasSameValue', 'HeapImmutable'], sample=sample,
                params={'min_len': maxlen},
                defs={'HLeaves': set(leaves), 'HOps': set(ops), 'MaxHeap': maxheap, 'MaxLen': maxlen})


def configs(tier, seed):
    if tier == 'quick':
        return [heap_config('pre-ops-len4', {'a', 'ab', 'empty', 'alt'},
                            {'concat', 'add', 'either', 'optional', 'exactly', 'capture', 'group', 'compile', 'match'}, 4, 4),
                heap_config('grouping-history-len4', {'ab', 'alt', 'altdup'}, {'group_ci', 'group', 'optional', 'mul', 'add', 'match'}, 4, 4),
                heap_config('alias-cache-len5', {'a', 'empty', 'dollar'}, {'concat', 'exactly', 'at_most', 'mul', 'compile', 'get_compiled', 'match'}, 4, 5),
                heap_config('classes-len4', {'from', 'between', 'aei', 'ce'}, {'or', 'sub', 'invert', 'concat', 'optional', 'compile'}, 5, 4),
                heap_config('captures-refusals-len4', {'a', 'anchor', 'ab'}, {'capture_n', 'capture_m', 'add', 'one_or_more', 'exactly', 'refused', 'match'}, 5, 4),
                heap_config('assertions-len4', {'a', 'anchor', 'empty'}, {'followed_by', 'not_preceded_by', 'match_at_line_start', 'enclose', 'one_or_more', 'match'}, 4, 4)]
    return [heap_config('grouping-history-len5', {'ab', 'alt', 'altdup', 'a'}, {'group_ci', 'group', 'optional', 'mul', 'add', 'exactly', 'match', 'compile'}, 5, 5),
            heap_config('pre-ops-len5', {'a', 'ab', 'empty', 'alt', 'dollar'},
                        {'concat', 'add', 'either', 'optional', 'exactly', 'capture', 'group', 'compile', 'match'}, 5, 5, sample=2),
            heap_config('alias-cache-len6', {'a', 'empty', 'dollar'}, {'concat', 'exactly', 'at_most', 'mul', 'compile', 'get_compiled', 'match'}, 4, 6, sample=4),
            heap_config('classes-len5', {'from', 'between', 'a', 'aei', 'ce'}, {'or', 'sub', 'invert', 'concat', 'optional', 'compile', 'match'}, 6, 5),
            heap_config('captures-refusals-len5', {'a', 'anchor', 'ab', 'alt'}, {'capture_n', 'capture_m', 'add', 'one_or_more', 'exactly', 'mul', 'refused', 'match', 'group'}, 6, 5),
            heap_config('assertions-len5', {'a', 'anchor', 'empty', 'alt'}, {'followed_by', 'not_preceded_by', 'match_at_line_start', 'enclose', 'one_or_more', 'match', 'group'}, 5, 5)]


def simulate_histories(tier, seed, seeds, res):
    """Deep random behaviours of the heap machine (tlc -simulate), replayed like the exhaustive ones."""
    import re
    from .farm import Farm
    from .tlaval import P
    from .tlc import run_tlc, runcfg_module
    n, depth = (40, 9) if tier == 'quick' else (600, 12)
    defs = {'HLeaves': {'a', 'ab', 'empty', 'alt', 'from', 'dollar', 'altdup', 'aei', 'ce', 'grp_ci', 'bos'}, 'HOps': set(ALL_OPS) | {'group_ci'}, 'MaxHeap': 8, 'MaxLen': depth}
    cfg = 'SPECIFICATION Spec\nINVARIANT SimPrint\nINVARIANT AliasSameValue\nPROPERTY HeapImmutable\nCHECK_DEADLOCK FALSE\n'
    r = run_tlc('PregexHeap', cfg, runcfg_module(defs, extends=['Integers']), workers=1,
                simulate='num=%d' % n, extra_args=['-depth', str(depth), '-seed', str(seed + 1)], timeout=1800)
    out = r['out']
    hists, seen = [], set()
    cap = 1500 if tier == 'quick' else 20000
    for m in re.finditer(r'<<\s*"SIMH"', out):
        if len(hists) >= cap:
            break
        try:
            v = P(out[m.start():]).val()
        except Exception:  # noqa
            continue
        if v[1] not in seen:
            seen.add(v[1])
            hists.append((v[1], v[2]))
    farm = Farm('harness.judge_heap.judge_sim', {'prop': 'C20'}, seeds=seeds, mode='all')
    for i in range(0, len(hists), 20):
        farm.submit(hists[i:i + 20])
    for _, rr in farm.close():
        res.agg.add(rr)
    res.runs.append({'name': 'simulate depth %d' % depth, 'module': 'PregexHeap', 'behaviours': len(hists), 'mode': '-simulate',
                     'invariants': ['AliasSameValue', 'HeapImmutable']})
    if r['violated']:
        res.model_violations.append(('PregexHeap simulate', r['violated'], out[-2000:]))
    return len(hists)


def check_C20(tier_arg=None):
    tier, seed = tier_and_seed(tier_arg)
    t0 = time.time()
    seeds = sorted({0, 1, seed % (2 ** 32)}) if tier == 'quick' else [0, 1, 2, 3]
    res = run_generated(configs(tier, seed), 'harness.judge_heap.judge', {'prop': 'C20'}, seeds=seeds, mode='all', batch=50)
    nsim = simulate_histories(tier, seed, seeds, res)
    st = res.agg.stats
    cov = {'simulated_behaviours': nsim, 'states': res.states, 'transitions': res.transitions, 'traces_validated_against_impl': st.get('cases', 0),
           'evaluations': st.get('cases', 0), 'distinct_nontrivial': st.get('nontrivial', 0),
           'rule': 'every history of maximal length of the heap machine (builder calls sharing and aliasing operands, compile, '
                   'get_compiled_pattern, matching) is replayed under every hash seed; after every call every live object is '
                   're-observed; non-trivial = every replayed history',
           'samples': res.agg.samples[:6], 'tlc_runs': res.runs, 'hash_seeds': seeds, 'exhaustive': True}
    return report('C20', tier, seed, res.agg.failures, cov, time.time() - t0, ASSUME, res.model_violations)


CHECKS = {'C20': check_C20}
