"""Catalogue of interesting code points and window selection (DESIGN 5.1)."""
import random

META = [ord(c) for c in '\\^$()[]{}?+*.|/']
INCLASS = [ord(c) for c in '-^]\\']
OTHER = [ord(c) for c in '\'"# \n\t\r\x0b\x0c\x00019abzAZ_'] + \
        [43, 44, 45, 46, 47, 90, 91, 92, 93, 94, 95, 96, 97, 48, 49, 50, 56, 57, 58, 59, 60, 61, 62, 64]
UNI = [0xDF, 0x1E9E, 0x3AC, 0x386, 0x3CE, 0x400, 0x4FF, 0x5BE, 0x4E00, 0x9FD5, 0x3131, 0xAC00,
       0x85, 0x2028, 0xD800, 0xFFFF, 0x10000, 0x10FFFF, 0x2022, 0xA9, 0x20AC]
CATALOGUE = sorted(set(META + INCLASS + OTHER + UNI))

CORE_WINDOWS = [(97, 91, 36), (97, 92, 93), (97, 124, 40), (10, 41, 124), (98, 46, 63), (97, 94, 45), (97, 41, 42),
                (65, 123, 125), (97, 43, 47), (97, 10, 98), (49, 36, 50), (97, 36, 10), (97, 93, 91), (97, 40, 41), (97, 63, 42), (97, 47, 92)]


def windows(tier, seed, n_quick=4, n_thorough=40):
    """Windows <<c1, c2, c3>>: c1 a plain character, c2 a metacharacter, c3 from the catalogue."""
    rnd = random.Random(seed)
    if tier == 'quick':
        wins = list(CORE_WINDOWS[:n_quick])
        extra = 2
    else:
        wins = list(CORE_WINDOWS)
        extra = n_thorough
    for _ in range(extra):
        c1 = rnd.choice([97, 98, 65, 49, 95, 0xDF])
        c2 = rnd.choice(META + INCLASS)
        c3 = rnd.choice([c for c in CATALOGUE if c not in (c1, c2)])
        w = (c1, c2, c3)
        if w not in wins:
            wins.append(w)
    return wins
