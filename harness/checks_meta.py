"""C15-C19: prebuilt patterns (PregexMeta), and C18's automaton product (MC_IPProduct)."""
import itertools
import random
import time

from .runner import run_generated, report, tier_and_seed, GenResult
from .tlc import RawTLA, tla_value

META_INV = ['ExactImpliesEmbedded', 'SpansOrdered', 'RangeSplit', 'IPDisjoint']
ASSUME = ['the promised languages are the predicates of spec/PregexMeta.tla, written from the docstrings of pregex.meta.essentials '
          '(DESIGN appendix A lists the points the documentation leaves open; they are never judged)',
          'subject texts are all strings over the stated per-constructor alphabet up to the stated length; parameters are the stated sets',
          'CPython re executes the emitted patterns']

D = lambda s: tuple(ord(c) for c in str(s))


def par(kind, alpha, ext=False, sign=False, lo=0, hi=9, dmin=1, dmax=-1, base=10, nmin=1, nmax=-1, glob=True, aslist=False, affixes=(), seeds=()):
    return {'kind': kind, 'ext': ext, 'sign': sign, 'lo': D(lo), 'hi': D(hi), 'dmin': dmin, 'dmax': dmax, 'base': base,
            'nmin': nmin, 'nmax': nmax, 'glob': glob, 'aslist': aslist, 'affixes': frozenset(D(a) for a in affixes),
            'alpha': frozenset(ord(c) for c in alpha), 'seeds': frozenset(D(t) for t in seeds)}


def pars_tla(ps):
    return RawTLA('{' + ', '.join(tla_value(p) for p in ps) + '}')


def cfg_text():
    return 'SPECIFICATION Spec\n' + ''.join('INVARIANT %s\n' % i for i in META_INV) + 'CHECK_DEADLOCK FALSE\n'


def meta_config(name, pars, maxlen, fmtlists=(), cands=(), exts=(), workers=8, ipaddrs=(), ipctxs=(), decbase=(), decmids=(), decctxs=()):
    return dict(name=name, module='PregexMeta', cfg=cfg_text(), workers=workers, invariants=META_INV, timeout=3000,
                defs={'Pars': pars_tla(pars), 'MaxLen': maxlen,
                      'DateFmtLists': RawTLA('{' + ', '.join(tla_value(tuple(f)) for f in fmtlists) + '}'),
                      'DateCands': RawTLA('{' + ', '.join(tla_value(c) for c in cands) + '}'),
                      'DateExts': set(exts),
                      'IPAddrs': set((v6, D(a)) for v6, a in ipaddrs), 'IPCtxs': set(D(c) for c in ipctxs),
                      'DecBasePars': pars_tla(decbase), 'DecMids': set(D(m) for m in decmids), 'DecCtxs': set(D(c) for c in decctxs)})


INT_KINDS = [('Integer', False), ('Integer', True), ('PositiveInteger', False), ('NegativeInteger', False), ('UnsignedInteger', False)]
RANGES_Q = [(0, 9), (1, 100), (0, 2147483647), (5, 5), (10, 99), (99, 101), (0, 0), (19, 21), (2, 120), (9, 10), (1, 21), (12, 1),
            (1, 199), (11, 99), (2, 50), (25, 0)]      # incl. pairs whose decimal spellings concatenate alike: (1,21)/(12,1)->skipped if lo>hi
RANGES_T = RANGES_Q + [(0, 1), (1, 9), (11, 19), (20, 99), (100, 101), (109, 110), (199, 200), (90, 110), (12, 1000), (999, 1001),
                       (1, 2147483647), (7, 7), (0, 10), (100, 999), (101, 909)]


def int_configs(tier, seed):
    rnd = random.Random(seed)
    ranges = RANGES_Q if tier == 'quick' else RANGES_T + [tuple(sorted((rnd.randint(0, 130), rnd.randint(0, 130)))) for _ in range(30)]
    ranges = sorted(set(r for r in ranges if r[0] <= r[1]))
    ps = []
    for (lo, hi) in ranges:
        for kind, sign in INT_KINDS:
            for ext in (False, True):
                ps.append(par(kind, '0129+- ' if not ext else '0129+-', ext=ext, sign=sign, lo=lo, hi=hi))
    cfgs = [meta_config('integers-embedded', ps, 4 if tier == 'quick' else 5)]
    # long numerals: digits only, around the 10-digit default upper bound and 4/5-digit bounds
    longp = []
    for (lo, hi) in [(0, 2147483647), (1000, 10000), (999, 100000)]:
        for kind, sign in INT_KINDS[:1] + INT_KINDS[3:4]:
            longp.append(par(kind, '09' if hi < 10 ** 6 else '12', ext=False, sign=sign, lo=lo, hi=hi))
            longp.append(par(kind, '01', ext=False, sign=sign, lo=lo, hi=hi))
    cfgs.append(meta_config('integers-long', longp, 7 if tier == 'quick' else 11))
    # many-digit bounds and candidates, given as seed texts (beyond anything the text enumeration reaches)
    big = []
    for (lo, hi) in [(123456789012, 123456789123), (99999999, 100000000001), (0, 10 ** 15), (5 * 10 ** 11, 5 * 10 ** 11), (10 ** 6, 2 * 10 ** 6),
                     (10 ** 9, 10 ** 9 + 5), (1000, 9999), (10 ** 12, 10 ** 13)]:
        cands = set()
        for v in (lo - 1, lo, lo + 1, hi - 1, hi, hi + 1, (lo + hi) // 2, hi * 10, lo // 10):
            if v >= 0:
                cands |= {str(v), '0' + str(v), ' ' + str(v) + ' ', '-' + str(v), '+' + str(v), 'x=' + str(v) + ';'}
        for kind, sign in INT_KINDS:
            for ext in (False, True):
                big.append(par(kind, '', ext=ext, sign=sign, lo=lo, hi=hi, seeds=sorted(c for c in cands if not ext or c[0] not in ' x')))
    cfgs.append(meta_config('integers-many-digits', big, 0))
    return cfgs


DEC_KINDS = [('Decimal', False), ('Decimal', True), ('PositiveDecimal', False), ('NegativeDecimal', False), ('UnsignedDecimal', False)]


def dec_configs(tier, seed):
    ranges = [(0, 9), (1, 100), (0, 0), (5, 20)] if tier == 'quick' else [(0, 9), (1, 100), (0, 0), (5, 20), (0, 2147483647), (10, 99), (99, 101)]
    fr = [(1, -1), (1, 1), (2, 3), (1, 2)] if tier == 'quick' else [(1, -1), (1, 1), (2, 3), (1, 2), (3, 3), (2, -1), (1, 4)]
    ps = []
    for (lo, hi) in ranges:
        for (a, b) in fr:
            for kind, sign in DEC_KINDS:
                for ext in (False, True):
                    ps.append(par(kind, '015.+-' if tier != 'quick' else '015.-', ext=ext, sign=sign, lo=lo, hi=hi, dmin=a, dmax=b))
    base = [par(kind, '', sign=sign, lo=lo, hi=hi, dmin=a, dmax=b) for (lo, hi) in [(0, 9), (1, 100)] for (a, b) in [(1, -1), (2, 3)]
            for kind, sign in DEC_KINDS]
    mids = ['.5', '.75', '0.5', '1.25', '9.123', '-.5', '-1.5', '+.25', '+7.5', '100.10', '0.0']
    ctxs = ['', ' ', ',', ';', '(', ')', '\n', ', ', '!'] if tier != 'quick' else ['', ' ', ',', '(', '\n']
    longf = []
    for (a, b) in [(10, 12), (11, -1), (12, 12)]:
        cands = ['%s.%s' % (i, '5' * k) for i in ('0', '7', '12', '') for k in (a - 1, a, a + 1, 12, 13, 30)]
        for kind, sign in DEC_KINDS:
            longf.append(par(kind, '', sign=sign, lo=0, hi=99, dmin=a, dmax=b, seeds=cands + ['-' + c for c in cands[:6]]))
    # the default upper bound of the integer part (2147483647) and its neighbours with ten and eleven digits
    for kind, sign in DEC_KINDS:
        for ext in (False, True):
            longf.append(par(kind, '', ext=ext, sign=sign, lo=0, hi=2147483647, dmin=1, dmax=-1,
                             seeds=[i + '.5' for i in ('2147483647', '2147483648', '2147483646', '9999999999', '10000000000', '999999999', '02147483647', '3000000000')]))
    return [meta_config('decimals-exact', ps, 4 if tier == 'quick' else 5),
            meta_config('decimals-long-fractions', longf, 0),
            meta_config('decimals-embedded', [], 0, decbase=base, decmids=mids, decctxs=ctxs)]


def word_configs(tier, seed):
    ps = []
    bases = list(range(2, 17))
    bounds = [(1, -1), (1, 1), (0, 2), (2, 3)] if tier == 'quick' else [(a, b) for a in (0, 1, 2, 3) for b in (-1, 1, 2, 3) if b == -1 or a <= b]
    for b in bases:
        hi = '0123456789abcdef'[b - 1]
        nx = '0123456789abcdefg'[b]
        alpha = '01' + hi + hi.upper() + nx + ' _' if b > 2 else '012 a'
        for (n, m) in bounds:
            for ext in (False, True):
                ps.append(par('Numeral', ''.join(sorted(set(alpha))), ext=ext, base=b, nmin=n, nmax=m))
    wb = [(1, -1), (2, 3), (1, 1), (3, -1)] if tier == 'quick' else [(a, b) for a in (1, 2, 3) for b in (-1, 1, 2, 3, 4) if b == -1 or a <= b]
    for (n, m) in wb:
        for glob in (True, False):
            for ext in (False, True):
                ps.append(par('Word', 'aB1_ -', ext=ext, nmin=n, nmax=m, glob=glob))
    affix_sets = [('a',), ('ab',), ('b', 'a1'), ('_',), ('b', 'ab'), ('a', 'ba'), ('ab', 'bab', 'aa', '1'), ('ab', 'abb', 'a1', '1a')] if tier == 'quick' else \
        [('a',), ('ab',), ('b', 'a1'), ('_',), ('aa', 'b'), ('1',), ('ab', 'ba', 'B'), ('b', 'ab'), ('a', 'ba'), ('1', 'a1b'), ('ab', 'bab', 'aa', '1'), ('ab', 'abb', 'a1', '1a'), ('a1', 'ba1b', '_', 'bb', '11')]
    for k in ('WordContains', 'WordStartsWith', 'WordEndsWith'):
        for aff in affix_sets:
            for glob in (True, False):
                ps.append(par(k, 'ab1_ -', ext=False, glob=glob, affixes=aff, aslist=len(aff) == 1 and glob))
        # affixes taken literally: metacharacters, judged with is_extensible=True
        for aff in [('a.b',), ('a+',), ('$',), ('[a]', 'b'), ('a|b',), ('(', ')'), ('\\w',), ('^a',), ('a\\\\', 'b'), ('\\', 'a'), ("a'", 'b'), ('b', 'a|')]:
            al = ''.join(sorted(set(''.join(aff)) | set('ab1')))
            ps.append(par(k, al, ext=True, glob=True, affixes=aff))
    longw = []
    for (n, m) in [(10, 12), (11, -1), (12, 12), (1, 10)]:
        ws = ['a' * k for k in (n - 1, n, n + 1, 12, 13, 40) if k > 0]
        ws += ['x ' + w + ' y' for w in ws[:4]] + [w[:-1] + '_' for w in ws[:3]] + [w[:-1] + '-' + w for w in ws[:2]]
        for ext in (False, True):
            longw.append(par('Word', '', ext=ext, nmin=n, nmax=m, glob=True, seeds=[w for w in ws if not ext or ' ' not in w and '-' not in w]))
        ds = [d * k for d in ('f', '9', 'A') for k in (n - 1, n, n + 1, 12, 13) if k > 0]
        for b in (10, 16):
            for ext in (False, True):
                longw.append(par('Numeral', '', ext=ext, base=b, nmin=n, nmax=m, seeds=ds + (['id ' + ds[1] + ' ;'] if not ext else [])))
    for k in ('WordContains', 'WordStartsWith', 'WordEndsWith'):
        aff = ('abcdefgh', 'zyxwvutsrq')
        ws = ['abcdefgh', 'xxabcdefghyy', 'abcdefghyy', 'xxabcdefgh', 'abcdefg', 'zyxwvutsrq1', '1zyxwvutsrq', 'abcdefgzyxwvutsr', 'say abcdefgh!', 'abcdefgh' * 4]
        longw.append(par(k, '', ext=False, glob=True, affixes=aff, seeds=ws))
    return [meta_config('numerals-words', ps, 4 if tier == 'quick' else 5), meta_config('numerals-words-long', longw, 0)]


def ip_configs(tier, seed):
    ps = []
    for ext in (False, True):
        ps.append(par('IPv4', '0125.', ext=ext))
    cfgs = [meta_config('ipv4-exact', ps, 7 if tier == 'quick' else 9),
            meta_config('ipv6-exact', [par('IPv6', '1a:', ext=e) for e in (False, True)], 9 if tier == 'quick' else 11),
            meta_config('ipv6-alphabet', [par('IPv6', '1Fg:.', ext=e) for e in (True,)], 6 if tier == 'quick' else 8)]
    addrs = [(False, '1.2.3.4'), (False, '255.0.10.199'), (True, '::'), (True, '1::'), (True, '::1'), (True, '1:2:3:4:5:6:7:8'),
             (True, 'fe80::a:1'), (True, 'A:b::'), (True, '1111:2:3:4:5:6:7:8888'), (True, 'abcd::1234'), (False, '255.255.255.255'), (True, '::a'), (True, '::ffff:102:304'), (True, '::dead:beef')]
    ctxs = ['', ' ', '1', '.', ':', 'x', ', ', '\n', '0 ', ' 9', '-', '(', ')']
    cfgs.append(meta_config('ip-embedded', [], 0, ipaddrs=addrs, ipctxs=ctxs))
    return cfgs


FIELDS = {'d': ['d', 'dd'], 'm': ['m', 'mm'], 'y': ['yyyy', 'yy']}


def all_formats():
    out = []
    for d in FIELDS['d']:
        for m in FIELDS['m']:
            for y in FIELDS['y']:
                for order in ((d, m, y), (m, d, y), (y, m, d)):
                    for sep in (45, 47):
                        out.append(order + (sep,))
    return out


def valid_field(f):
    return {'d': '7', 'dd': '17', 'm': '3', 'mm': '11', 'yy': '21', 'yyyy': '2021'}[f]


def date_configs(tier, seed):
    rnd = random.Random(seed)
    fmts = all_formats()
    assert len(fmts) == 48
    one = [str(i) for i in range(10)]
    two = ['%02d' % i for i in range(100)]
    other = ['', '000', '123', '2021', '0000', '99999', '20211', '1a', 'ab']
    values = one + two + other
    cands = set()
    pick = fmts
    # candidates are format-independent: three field texts and two separators; built around the valid fields of each picked format
    for f in pick:
        base = [valid_field(x) for x in f[:3]]
        for pos in range(3):
            for v in (values if tier != 'quick' else one + two[:40:4] + two[28:34] + two[9:14] + two[99:] + other[:6]):
                p = list(base)
                p[pos] = v
                for s1, s2 in ((f[3], f[3]), (f[3], 92 - f[3]), (92 - f[3], f[3])) if v == base[pos] or tier != 'quick' else ((f[3], f[3]),):
                    cands.add((D(p[0]), D(p[1]), D(p[2]), s1, s2))
    cands = [{'p1': c[0], 'p2': c[1], 'p3': c[2], 's1': c[3], 's2': c[4]} for c in sorted(cands)]
    lists = [(f,) for f in (pick if tier != 'quick' else pick[::2] + [pick[1], pick[47]])]
    lists.append(tuple(fmts))                                   # formats=None selects all documented formats
    for _ in range(3 if tier == 'quick' else 12):
        lists.append(tuple(rnd.sample(fmts, rnd.randint(2, 5))))
    # pairs of formats that differ only in the width of day and month (same order, separator and year), and mixed-width pairs
    def variant(f, d, m):
        return tuple(d if x in ('d', 'dd') else m if x in ('m', 'mm') else x for x in f[:3]) + (f[3],)
    pairs = []
    for f in fmts:
        if 'd' in f[:3] and 'm' in f[:3]:
            pairs.append((f, variant(f, 'dd', 'mm')))
            pairs.append((variant(f, 'dd', 'm'), variant(f, 'd', 'mm')))
    lists += pairs if tier != 'quick' else pairs[::3]
    if tier == 'quick':
        cfgs = [meta_config('dates', [], 0, fmtlists=lists, cands=cands, exts=(False,))]
    else:
        # TLC builds the set of initial states in one piece (limit 1 000 000): the format lists are spread over several instances
        cfgs = [meta_config('dates-%d' % (i // 25), [], 0, fmtlists=lists[i:i + 25], cands=cands, exts=(False, True)) for i in range(0, len(lists), 25)]
    if tier == 'quick':
        # is_extensible=True on a selection of the lists (all of them in the thorough tier)
        cfgs.append(meta_config('dates-extensible', [], 0, fmtlists=lists[1:len(lists):4] + [tuple(fmts)], cands=cands, exts=(True,)))
    return cfgs


ARGS_CTORS = {'C15': ['Integer', 'PositiveInteger', 'NegativeInteger', 'UnsignedInteger'],
              'C16': ['Decimal', 'PositiveDecimal', 'NegativeDecimal', 'UnsignedDecimal'],
              'C17': ['Numeral', 'Word', 'WordContains', 'WordStartsWith', 'WordEndsWith'], 'C19': ['Date']}


def args_config():
    return dict(name='meta-constructor-arguments', module='PregexMetaArgs', workers=4, invariants=['OutcomeTotal'],
                cfg='SPECIFICATION Spec\nINVARIANT OutcomeTotal\nCHECK_DEADLOCK FALSE\n', defs={})


def run_ctor_space(tier, seed, seeds, res, prop='C03', facets=('crash', 'compile', 'export'), ctors=None):
    """The documented argument space of the meta constructors (used by C03 and, per family, by C15-C17 and C19)."""
    run_generated([args_config()], 'harness.judge_metaargs.judge', {'prop': prop, 'facets': list(facets), 'ctors': ctors},
                  seeds=(0,), mode='rr', batch=100, result=res)


def generic(prop, configs_fn, rule, tier_arg=None, extra=None):
    tier, seed = tier_and_seed(tier_arg)
    t0 = time.time()
    res = GenResult()
    # the prebuilt patterns are assembled through class unions, i.e. through Python sets: every state runs under several hash seeds
    hs = (0, 2, 5) if tier == 'quick' else (0, 2, 5, 6)
    run_generated(configs_fn(tier, seed), 'harness.judge_meta.judge', {'prop': prop, 'facets': ['exact', 'matches', 'crash', 'compile', 'exc']},
                  seeds=hs, mode='all', batch=200, result=res)
    if prop in ARGS_CTORS:
        run_ctor_space(tier, seed, (0,), res, prop=prop, facets=('crash', 'exc', 'accepted', 'compile'), ctors=ARGS_CTORS[prop])
    extra_cov = {}
    if extra:
        extra_cov = extra(tier, seed, res)
    st = res.agg.stats
    cov = {'states': res.states, 'transitions': res.transitions, 'traces_validated_against_impl': st.get('cases', 0),
           'evaluations': st.get('cases', 0), 'distinct_nontrivial': st.get('nontrivial', 0), 'rule': rule,
           'samples': res.agg.samples[:8], 'tlc_runs': res.runs,
           'facet_counts': {k[6:]: v for k, v in st.items() if k.startswith('facet:')}, 'exhaustive': True, 'hash_seeds': list(hs)}
    cov.update(extra_cov)
    return report(prop, tier, seed, res.agg.failures, cov, time.time() - t0, ASSUME, res.model_violations)


RULE = 'TLC builds every subject text over the constructor\'s alphabet up to the stated length for every parameter record and computes the ' \
       'intended exact-match verdict and matched spans; each state is replayed (is_exact_match, get_matches_and_pos); non-trivial = a state ' \
       'whose text is accepted or contains a match'


def check_C15(tier=None):
    return generic('C15', int_configs, RULE, tier)


def check_C16(tier=None):
    return generic('C16', dec_configs, RULE, tier)


def check_C17(tier=None):
    return generic('C17', word_configs, RULE, tier)


def _c18_extra(tier, seed, res):
    import shutil
    import tempfile
    from . import ipproduct
    from .tlc import scratch_root
    cov = ipproduct.run(tier, seed, res)
    d = tempfile.mkdtemp(prefix='pregex-verif.ipfile.', dir=scratch_root())
    try:
        cov['long_file_probe'] = ipproduct.file_probe(res, d)
    finally:
        shutil.rmtree(d, ignore_errors=True)
    return cov


def check_C18(tier=None):
    from . import ipproduct
    return generic('C18', ip_configs, RULE + '; plus language equality of the emitted extensible IPv4/IPv6 patterns with the reference '
                   'automata by product exploration in TLC (all strings); plus addresses across block boundaries of a 140 000-character file', tier, extra=_c18_extra)


def check_C19(tier=None):
    return generic('C19', date_configs, RULE, tier)


def extras_configs(tier, seed):
    ps = [par(k, 'a \n\t1', ext=e) for k in ('Text', 'Whitespace', 'NonWhitespace') for e in (False, True)]
    return [meta_config('text-whitespace', ps, 4 if tier == 'quick' else 5)]


def check_X01(tier=None):
    """Not a listed property and not registered in MANIFEST: Text / Whitespace / NonWhitespace languages (specification growth)."""
    return generic('X01', extras_configs, RULE, tier)


CHECKS = {'X01': check_X01, 'C15': check_C15, 'C16': check_C16, 'C17': check_C17, 'C18': check_C18, 'C19': check_C19}
