"""Evaluate seeded faults: for every candidate <dir>/mutation_k.{patch,json,_demo.py}
  - copy /repo (HEAD working tree) to a scratch directory, apply the patch there
  - the repository's own tests must still pass, the demo must exit 1 with and 0 without the patch
  - run the given checks (quick tier) with VERIF_REPO pointing at the scratch copy
and store confirmed faults under /verif/seeded/<id>/.

usage: python -m harness.seedtest <candidate-dir> <PROP> [checks...]
"""
import glob
import json
import os
import shutil
import subprocess
import sys
import tempfile
import time

VERIF = os.path.dirname(os.path.dirname(os.path.abspath(__file__)))
PY = '/venv/bin/python'


def sh(cmd, cwd=None, env=None, timeout=3000):
    e = dict(os.environ)
    e.update(env or {})
    p = subprocess.run(cmd, cwd=cwd, env=e, capture_output=True, text=True, timeout=timeout)
    return p.returncode, p.stdout + p.stderr


def main(argv):
    cand, prop = argv[0], argv[1]
    checks = argv[2:] or [prop]
    tier = os.environ.get('SEED_TIER', 'quick')
    out = []
    prefix = os.environ.get('SEED_PREFIX', '')          # e.g. "r3_" for files r3_mutation_1.patch
    for patch in sorted(glob.glob(os.path.join(cand, prefix + 'mutation_*.patch'))):
        k = os.path.basename(patch)[len(prefix + 'mutation_'):-len('.patch')]
        demo = os.path.join(cand, prefix + 'mutation_%s_demo.py' % k)
        meta = json.load(open(os.path.join(cand, prefix + 'mutation_%s.json' % k)))
        k = prefix + k
        scratch = tempfile.mkdtemp(prefix='pregex-seed.', dir='/var/tmp')
        try:
            sh(['git', '-C', '/repo', 'worktree', 'add', '--detach', scratch + '/wt', 'HEAD'])
            wt = scratch + '/wt'
            env = {'PYTHONPATH': wt + '/src', 'PYTHONDONTWRITEBYTECODE': '1'}
            rc_clean, _ = sh([PY, '-W', 'ignore', demo], cwd=wt, env=env)
            rc_apply, o = sh(['git', '-C', wt, 'apply', patch])
            if rc_apply != 0:
                rc_apply, o = sh(['git', '-C', wt, 'apply', '--3way', patch])
            if rc_apply != 0:
                out.append({'id': '%s_%s' % (prop, k), 'status': 'patch does not apply', 'detail': o[-300:]})
                continue
            rc_tests, o = sh([PY, '-W', 'ignore', '-m', 'pytest', '-q', '-p', 'no:cacheprovider', '-x'], cwd=wt, env=env)
            tests_ok = rc_tests == 0
            rc_demo, demo_out = sh([PY, '-W', 'ignore', demo], cwd=wt, env=env)
            res = {}
            for c in checks:
                t0 = time.time()
                rc, o = sh([os.path.join(VERIF, 'vf'), 'check', c, '--tier', tier], cwd=VERIF,
                           env={'VERIF_REPO': wt, 'VERIF_EVIDENCE_DIR': scratch + '/evidence'})
                viol = [l for l in o.splitlines() if l.startswith('VIOLATION')]
                first = ''
                lines = o.splitlines()
                for i, l in enumerate(lines):
                    if l.startswith('VIOLATION') and i + 1 < len(lines):
                        first = lines[i + 1].strip()[:300]
                        break
                res[c] = {'exit': rc, 'violations': len(viol), 'first': first, 'wall_s': round(time.time() - t0, 1),
                          'tail': '' if rc in (0, 1) else o[-600:]}
            confirmed = tests_ok and rc_demo == 1 and rc_clean == 0
            rec = {'id': '%s_%s' % (prop, k), 'property': prop, 'summary': meta.get('summary'), 'needs': meta.get('needs'),
                   'files': meta.get('files'), 'repo_tests_pass_with_patch': tests_ok, 'demo_exit_with_patch': rc_demo,
                   'demo_exit_clean': rc_clean, 'confirmed': confirmed, 'checks': res, 'tier': tier,
                   'detected_by': sorted(c for c, r in res.items() if r['exit'] == 1),
                   'ran': 'scratch git worktree of /repo HEAD with the patch applied; checks run with VERIF_REPO=<worktree>'}
            out.append(rec)
            if confirmed:
                d = os.path.join(VERIF, 'seeded', rec['id'])
                os.makedirs(d, exist_ok=True)
                shutil.copy(patch, os.path.join(d, 'patch.diff'))
                shutil.copy(demo, os.path.join(d, 'demo.py'))
                json.dump(rec, open(os.path.join(d, 'meta.json'), 'w'), indent=1)
            print(json.dumps({k2: rec[k2] for k2 in ('id', 'confirmed', 'detected_by', 'summary')}), flush=True)
            for c, r in res.items():
                print('    %s exit=%s violations=%s %ss  %s %s' % (c, r['exit'], r['violations'], r['wall_s'], r['first'], r['tail']), flush=True)
        finally:
            sh(['git', '-C', '/repo', 'worktree', 'remove', '--force', scratch + '/wt'])
            shutil.rmtree(scratch, ignore_errors=True)
    return 0


if __name__ == '__main__':
    sys.exit(main(sys.argv[1:]))
