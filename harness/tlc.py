"""Run TLC on a specification instance and stream its state dump to a consumer.

The spec modules live in /verif/spec; every run gets a private scratch directory
(outside /repo and /verif) holding copies of the modules, the generated RunCfg.tla
and the .cfg, TLC's metadir and - when a dump is requested - a FIFO through which
the dump is streamed, so multi-GB dumps never touch the disk.
"""
import os, re, shutil, subprocess, tempfile, threading, time, glob

SPEC_DIR = os.path.join(os.path.dirname(os.path.dirname(os.path.abspath(__file__))), 'spec')
JAR = '/opt/veriftools/tla/tla2tools.jar'
CM = '/opt/veriftools/tla/CommunityModules-deps.jar'


def scratch_root():
    base = os.environ.get('VERIF_SCRATCH') or os.environ.get('TMPDIR') or '/var/tmp'
    os.makedirs(base, exist_ok=True)
    return base


class MachineryError(Exception):
    """TLC crashed, a spec did not parse, a model-level theorem failed: exit 2."""


def tla_value(x):
    """Render a Python value as a TLA+ expression (for generated RunCfg modules)."""
    if isinstance(x, bool):
        return 'TRUE' if x else 'FALSE'
    if isinstance(x, int):
        return str(x)
    if isinstance(x, str):
        return '"' + x.replace('\\', '\\\\').replace('"', '\\"') + '"'
    if isinstance(x, tuple) or isinstance(x, list):
        return '<<' + ', '.join(tla_value(e) for e in x) + '>>'
    if isinstance(x, (set, frozenset)):
        return '{' + ', '.join(sorted(tla_value(e) for e in x)) + '}'
    if isinstance(x, dict):
        return '[' + ', '.join('%s |-> %s' % (k, tla_value(v)) for k, v in sorted(x.items())) + ']'
    raise TypeError(x)


def runcfg_module(defs, extends=None):
    lines = ['---- MODULE RunCfg ----']
    if extends:
        lines.append('EXTENDS ' + ', '.join(extends))
    for k, v in defs.items():
        lines.append('%s == %s' % (k, v if isinstance(v, RawTLA) else tla_value(v)))
    lines.append('====')
    return '\n'.join(lines) + '\n'


class RawTLA(str):
    pass


_STATS = re.compile(r'(\d+) states generated, (\d+) distinct states found, (\d+) states left on queue')


def run_tlc(module, cfg_text, runcfg=None, workers=8, consumer=None, timeout=3600,
            simulate=None, extra_files=None, coverage=False, env_extra=None, depth_first=False, extra_args=None):
    """Run TLC on spec/<module>.tla.

    consumer: callable(file_object) reading the streamed -dump output (None: no dump).
    Returns dict(generated, distinct, out, wall_s, violated (list of invariant names), coverage).
    """
    sdir = tempfile.mkdtemp(prefix='pregex-verif.', dir=scratch_root())
    try:
        for f in glob.glob(os.path.join(SPEC_DIR, '*.tla')):
            shutil.copy(f, sdir)
        if runcfg is not None:
            with open(os.path.join(sdir, 'RunCfg.tla'), 'w') as fh:
                fh.write(runcfg)
        for name, text in (extra_files or {}).items():
            with open(os.path.join(sdir, name), 'w') as fh:
                fh.write(text)
        with open(os.path.join(sdir, module + '.cfg'), 'w') as fh:
            fh.write(cfg_text)
        cmd = ['java', '-XX:+UseParallelGC', '-Xmx8g']
        if depth_first:
            cmd.append('-Dtlc2.tool.queue.IStateQueue=StateDeque')
        cmd += ['-cp', JAR + ':' + CM, 'tlc2.TLC', '-workers', str(workers), '-metadir', os.path.join(sdir, 'meta'),
                '-noGenerateSpecTE', '-config', module + '.cfg']
        if coverage:
            cmd += ['-coverage', '1']
        if simulate:
            cmd += ['-simulate', simulate]
        if extra_args:
            cmd += list(extra_args)
        th = None
        err = []
        if consumer is not None:
            fifo = os.path.join(sdir, 'states.dump')
            os.mkfifo(fifo)
            cmd += ['-dump', os.path.join(sdir, 'states')]

            def pump():
                try:
                    with open(fifo, 'r', encoding='utf-8', errors='surrogateescape') as fh:
                        consumer(fh)
                        for _ in fh:      # drain if the consumer stopped early
                            pass
                except Exception as e:   # noqa
                    import traceback
                    err.append(traceback.format_exc())
            th = threading.Thread(target=pump, daemon=True)
            th.start()
        cmd.append(module + '.tla')
        env = dict(os.environ)
        # deep recursive operators (Emit / Infer over long texts, EvalT over deep programs) need a larger thread stack
        env['JAVA_TOOL_OPTIONS'] = (env.get('JAVA_TOOL_OPTIONS', '') + ' -Xss256m').strip()
        env.update(env_extra or {})
        t0 = time.time()
        try:
            pr = subprocess.run(cmd, cwd=sdir, capture_output=True, text=True, timeout=timeout, env=env)
        except subprocess.TimeoutExpired as e:
            subprocess.run(['pkill', '-f', sdir], capture_output=True)
            raise MachineryError('TLC timed out after %ss on %s' % (timeout, module))
        out = pr.stdout + pr.stderr
        if th is not None:
            if 'states generated' not in out:
                # TLC died before opening the dump: unblock the reader
                try:
                    fd = os.open(os.path.join(sdir, 'states.dump'), os.O_WRONLY | os.O_NONBLOCK)
                    os.close(fd)
                except OSError:
                    pass
            th.join(timeout=600)
        if err:
            raise MachineryError('dump consumer failed:\n' + err[0])
        m = None
        for m in _STATS.finditer(out):
            pass
        violated = re.findall(r'Invariant (\w+) is violated', out) + \
            re.findall(r'Action property (\w+) is violated', out) + \
            (['<temporal>'] if 'Temporal properties were violated' in out else []) + \
            (['<postcondition>'] if re.search(r'POSTCONDITION|Postcondition', out) and 'violated' in out and 'ostcondition' in out.split('violated')[0][-200:] else [])
        if m is None and not simulate:
            raise MachineryError('TLC produced no statistics for %s:\n%s' % (module, out[-3000:]))
        if ('Error:' in out or pr.returncode not in (0,)) and not violated:
            if pr.returncode != 0:
                raise MachineryError('TLC failed on %s (exit %s):\n%s' % (module, pr.returncode, out[-4000:]))
        res = dict(generated=int(m.group(1)) if m else 0, distinct=int(m.group(2)) if m else 0,
                   out=out, wall_s=time.time() - t0, violated=violated, rc=pr.returncode)
        return res
    finally:
        shutil.rmtree(sdir, ignore_errors=True)
