"""vf selftest: demonstrate that the specification is bound to the code.

 1. Trace binding: record observer events from the real library, show that TLC accepts them all, then corrupt ONE
    recorded field (a span, a captured text, an exception name) and show that TLC rejects exactly that event.
 2. Replay binding: apply one stored seeded fault (seeded/C02_2) to a scratch worktree of /repo and show that the
    C02 check, which passes on the unchanged tree, exits 1 on it.
"""
import copy
import json
import os
import shutil
import subprocess
import sys
import tempfile

VERIF = os.path.dirname(os.path.dirname(os.path.abspath(__file__)))


def selftest():
    sys.path.insert(0, os.path.join(os.environ.get('VERIF_REPO', '/repo'), 'src'))
    from . import judge_api as J
    from .checks_api import validate_events
    from .tlc import scratch_root
    ok = True
    scratch = tempfile.mkdtemp(prefix='pregex-verif.selftest.', dir=scratch_root())
    try:
        rec = J.Recorder(scratch)
        for pname in ('mixed', 'nested', 'alt-overlap', 'star'):
            psrc = dict(J.PATTERNS)[pname]
            for hist in ([('capture', 1)], [('compile', 1), ('match', 2)], [('get_compiled_discard', 1), ('edit', 1)]):
                J.run_history(rec, hist, [False, True][:len(hist)] if hist[0][0] != 'compile' else [True, True], pname, psrc,
                              ['ab\nab', 'aab', 'b'], False, {})
        events = sorted(rec.events.items())
        rejected, _, _ = validate_events(events)
        print('recorded %d distinct events from the library; TLC rejects %d of them' % (len(events), len(rejected)))
        ok &= not rejected
        # corrupt one field at a time
        def corrupt(idx, how):
            evs = json.loads(json.dumps(events))      # a deep copy without shared sub-objects
            how(evs[idx][1])
            rej, _, _ = validate_events(evs)
            return rej
        i_pos = next(i for i, (_, e) in enumerate(events) if e['m'] == 'get_matches_and_pos' and e['r'])
        i_cap = next(i for i, (_, e) in enumerate(events) if e['m'] == 'get_captures' and e['r'] and e['r'][0])
        i_rep = next(i for i, (_, e) in enumerate(events) if e['m'] == 'replace' and e['p']['count'].get('v', 0) < 0)
        cases = [('end position of a match + 1', i_pos, lambda e: e['r'][0].__setitem__(2, e['r'][0][2] + 1)),
                 ('captured text replaced', i_cap, lambda e: e['r'][0].__setitem__(0, [120])),
                 ('exception name changed', i_rep, lambda e: e.__setitem__('exc', 'InvalidArgumentTypeException')),
                 ('match list shifted (specification side)', i_pos, lambda e: e['ML'][0].__setitem__('s', e['ML'][0]['s'] + 1))]
        for name, idx, how in cases:
            rej = corrupt(idx, how)
            good = rej == [idx]
            ok &= good
            print('  corrupted %-45s -> TLC rejects events %s  %s' % (name, rej, 'OK' if good else 'UNEXPECTED'))
    finally:
        shutil.rmtree(scratch, ignore_errors=True)
    # replay binding with a stored seeded fault
    seed = os.path.join(VERIF, 'seeded', 'C02_2')
    if os.path.isdir(seed):
        wt = tempfile.mkdtemp(prefix='pregex-selftest.', dir='/var/tmp')
        try:
            subprocess.run(['git', '-C', '/repo', 'worktree', 'add', '--detach', wt + '/wt', 'HEAD'], capture_output=True)
            a = subprocess.run(['git', '-C', wt + '/wt', 'apply', os.path.join(seed, 'patch.diff')], capture_output=True)
            env = dict(os.environ, VERIF_REPO=wt + '/wt', VERIF_EVIDENCE_DIR=wt + '/evidence')
            r = subprocess.run([os.path.join(VERIF, 'vf'), 'check', 'C02', '--tier', 'quick'], capture_output=True, text=True, env=env)
            n = r.stdout.count('VIOLATION')
            print('seeded fault C02_2 applied to a scratch worktree (apply rc %d): C02 exits %d with %d VIOLATION lines  %s'
                  % (a.returncode, r.returncode, n, 'OK' if r.returncode == 1 else 'UNEXPECTED'))
            ok &= r.returncode == 1
        finally:
            subprocess.run(['git', '-C', '/repo', 'worktree', 'remove', '--force', wt + '/wt'], capture_output=True)
            shutil.rmtree(wt, ignore_errors=True)
    print('SELFTEST', 'PASSED' if ok else 'FAILED')
    return 0 if ok else 1
