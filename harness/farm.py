"""Replay farm: worker processes (one group per PYTHONHASHSEED) that import the real
library from /repo's current working tree and judge batches of cases."""
import collections
import importlib
import multiprocessing as mp
import os
import sys
import threading

REPO = os.environ.get('VERIF_REPO', '/repo')
VERIF = os.path.dirname(os.path.dirname(os.path.abspath(__file__)))


def _init(repo, verif, recursion):
    sys.path.insert(0, os.path.join(repo, 'src'))
    sys.path.insert(0, verif)
    sys.dont_write_bytecode = True
    sys.setrecursionlimit(recursion)
    import warnings
    warnings.simplefilter('ignore')
    import pregex  # noqa: make import errors show up at start


def _run(judge, payload, params):
    mod, fn = judge.rsplit('.', 1)
    f = getattr(importlib.import_module(mod), fn)
    try:
        return f(payload, params)
    except Exception as e:  # noqa: a judge must never raise; report where it did so that the case can be reproduced
        import traceback
        tb = traceback.format_exc()
        for item in payload:
            try:
                f([item], params)
            except Exception:  # noqa
                raise RuntimeError('%r in judge %s on case %r\n%s' % (e, judge, str(item)[:1500], tb[-1500:]))
        raise RuntimeError('%r in judge %s\n%s' % (e, judge, tb[-1500:]))


class Farm:
    def __init__(self, judge, params, seeds=(0,), procs=None, mode='rr', recursion=600):
        """mode 'rr': every batch goes to one group (round robin); 'all': to every group."""
        self.judge, self.params, self.mode = judge, params, mode
        procs = procs or max(1, min(16, os.cpu_count() or 4))
        per = max(1, procs // len(seeds))
        ctx = mp.get_context('spawn')
        self.pools = []
        old = os.environ.get('PYTHONHASHSEED')
        os.environ['PYTHONDONTWRITEBYTECODE'] = '1'
        for s in seeds:
            os.environ['PYTHONHASHSEED'] = str(s)
            self.pools.append((s, ctx.Pool(per, initializer=_init, initargs=(REPO, VERIF, recursion))))
        if old is None:
            os.environ.pop('PYTHONHASHSEED', None)
        else:
            os.environ['PYTHONHASHSEED'] = old
        self.seeds = list(seeds)
        self.sem = threading.Semaphore(per * len(seeds) * 4)
        self.results = []
        self.lock = threading.Lock()
        self.rr = 0
        self.errors = []

    def _done(self, seed):
        def cb(r):
            with self.lock:
                self.results.append((seed, r))
            self.sem.release()
        return cb

    def _err(self, e):
        with self.lock:
            self.errors.append(str(e) if isinstance(e, RuntimeError) else repr(e))
        self.sem.release()

    def submit(self, payload):
        targets = self.pools if self.mode == 'all' else [self.pools[self.rr % len(self.pools)]]
        self.rr += 1
        if self.errors:
            from .tlc import MachineryError
            raise MachineryError('replay worker failed: ' + self.errors[0])
        for seed, pool in targets:
            if not self.sem.acquire(timeout=900):
                from .tlc import MachineryError
                raise MachineryError('replay workers made no progress for 900 s')
            pool.apply_async(_run, (self.judge, payload, dict(self.params, hashseed=seed)),
                             callback=self._done(seed), error_callback=self._err)

    def close(self):
        for _, p in self.pools:
            p.close()
        for _, p in self.pools:
            p.join()
        if self.errors:
            from .tlc import MachineryError
            raise MachineryError('replay worker failed: ' + self.errors[0])
        return self.results


def split_states(fh, batch=100):
    """Split a TLC -dump stream into batches of raw state texts."""
    buf, cur = [], []
    for line in fh:
        if line.startswith('State '):
            if cur:
                buf.append(''.join(cur))
                cur = []
                if len(buf) >= batch:
                    yield buf
                    buf = []
        else:
            cur.append(line)
    if cur and ''.join(cur).strip():
        buf.append(''.join(cur))
    if buf:
        yield buf


class Agg:
    """Aggregate worker results: counters, failures, samples."""
    def __init__(self):
        self.stats = collections.Counter()
        self.failures = []
        self.samples = []
        self.distinct = set()

    def add(self, r):
        self.stats.update(r.get('stats', {}))
        self.failures.extend(r.get('failures', []))
        for s in r.get('samples', []):
            if len(self.samples) < 12:
                self.samples.append(s)
        self.distinct.update(r.get('distinct', ()))
