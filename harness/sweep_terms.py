"""Dev aid: sweep a seeded program generator over many seeds (no evidence written): any failure must be triaged
before the generator is registered in a check (DESIGN section 4, rule 5).
usage: python -m harness.sweep_terms wide|random <seed_from> <seed_to> <n>"""
import sys
from . import checks_compose as CC
from . import randterms as RT
from .runner import run_generated


def main(argv):
    kind, a, b, n = argv[0], int(argv[1]), int(argv[2]), int(argv[3])
    facets = ['behaviour', 'compile', 'crash', 'exc', 'accepted', 'caps', 'export', 'emptytext']
    bad = 0
    for seed in range(a, b):
        terms = RT.generate_wide(seed * 31 + 7, n) if kind == 'wide' else RT.generate(seed * 7919 + 17, n)
        c = CC.terms_config('%s-%d' % (kind, seed), terms)
        c['params'] = {'members': True}
        res = run_generated([c], 'harness.judge_compose.judge', {'prop': 'C02', 'facets': facets}, seeds=(0,), mode='rr')
        fs = res.agg.failures
        print('seed', seed, 'cases', res.agg.stats.get('cases', 0), 'failures', len(fs), 'model', [m[:2] for m in res.model_violations],
              {k: v for k, v in res.agg.stats.items() if k.startswith('outcome:')}, flush=True)
        for f in fs[:5]:
            print('   ', f.get('term'), f.get('spelling'), f.get('facet'), str(f.get('detail'))[:400], flush=True)
        bad += len(fs) + len(res.model_violations)
    print('total failures', bad)


if __name__ == '__main__':
    main(sys.argv[1:])
