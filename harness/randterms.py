"""Seeded random programs (surface terms) over the whole of Unicode, for validation against Eval(term) (PregexTerms)."""
import random

from . import universe as UV

NAMES = ['n', 'm', 'k']
TOKENS = ['Backslash', 'Dollar', 'Newline', 'Space', 'Euro', 'Tab', 'Copyright']
QUANT2 = [('Optional',), ('Indefinite',), ('OneOrMore',)]
BOUNDS = [('i', 0), ('i', 1), ('i', 2), ('i', 3), ('none',), ('i', -1), ('bool',), ('float',), ('str',), ('boolf',)]
VALID_BOUNDS = [('i', 0), ('i', 1), ('i', 2), ('i', 3)]


class Gen:
    def __init__(self, seed, unicode_share=0.35, bad_share=0.04, alphabet=None):
        self.r = random.Random(seed)
        self.us = unicode_share
        self.bad = bad_share
        self.alphabet = alphabet

    def cp(self):
        r = self.r
        if self.alphabet:
            return r.choice(self.alphabet)
        x = r.random()
        if x < 0.45:
            return r.choice(UV.META + UV.INCLASS)
        if x < 0.45 + self.us:
            c = r.randrange(0x110000)
            return c
        return r.choice([97, 98, 65, 49, 95, 32, 10, 39, 34, 58, 0x85, 0xDF, 0x3AC, 0x4E00, 0x10FFFF, 0])

    def string(self, maxlen=3):
        n = self.r.choice([0, 1, 1, 1, 2, 2, 3][:maxlen + 4])
        return tuple(self.cp() for _ in range(min(n, maxlen)))

    def leaf(self):
        r = self.r
        x = r.random()
        if x < self.bad:
            return ('badarg', r.choice(['int', 'none', 'list']))
        if x < 0.45:
            return ('str', self.string())
        if x < 0.6:
            return ('Pregex', self.string())
        if x < 0.7:
            cs = tuple(sorted({self.cp() for _ in range(r.choice([1, 2, 3]))}))
            return (r.choice(['AnyFrom', 'AnyButFrom']), cs)
        if x < 0.75:
            a, b = sorted([self.cp(), self.cp()])
            return ('AnyBetween', a, b) if a < b else ('Any',)
        if x < 0.82:
            return ('Token', r.choice(TOKENS))
        if x < 0.88:
            return (r.choice(['WordBoundary', 'NonWordBoundary']),)
        if x < 0.94:
            return (r.choice(['Any', 'AnyDigit']),)
        return ('Backreference', r.choice([('i', 1), ('name', 'n')]))

    def bound(self, valid_only=False):
        return self.r.choice(VALID_BOUNDS if valid_only or self.r.random() > 0.15 else BOUNDS)

    def term(self, depth):
        r = self.r
        if depth == 0 or r.random() < 0.15:
            return self.leaf()
        x = r.random()
        sub = lambda: self.term(depth - 1)
        if x < 0.22:
            n = r.choice([1, 2, 2, 2, 3])
            return (r.choice(['Concat', 'Concat', 'Either', 'Enclose']), ('args',) + tuple(sub() for _ in range(n)))
        if x < 0.34:
            return (r.choice(['Optional', 'Indefinite', 'OneOrMore']), sub(), r.random() < 0.6)
        if x < 0.40:
            return (r.choice(['Exactly', 'Mul']), sub(), self.bound())
        if x < 0.46:
            return (r.choice(['AtLeast', 'AtMost']), sub(), self.bound(), r.random() < 0.6)
        if x < 0.52:
            a, b = self.bound(), self.bound()
            return ('AtLeastAtMost', sub(), a, b, r.random() < 0.6)
        if x < 0.64:
            nm = r.choice([('none',), ('none',), ('name', r.choice(NAMES)), ('badname',)]) if r.random() < 0.9 else ('badtype',)
            return ('Capture', sub(), nm)
        if x < 0.72:
            return ('Group', sub(), r.random() < 0.3)
        if x < 0.80:
            return ('Anchor', r.choice(['bos', 'eos', 'bol', 'eol']), sub())
        if x < 0.96:
            n = r.choice([1, 1, 1, 2, 0])
            return ('Look', r.choice(['ahead', 'behind', 'both']), r.random() < 0.5, sub(), ('args',) + tuple(self.term(max(depth - 2, 0)) for _ in range(n)))
        return ('Conditional', ('name', r.choice(NAMES)), sub()) if r.random() < 0.5 else ('Conditional', ('name', r.choice(NAMES)), sub(), sub())


WIDE_BOUNDS = [('i', 0), ('i', 1), ('i', 2), ('i', 3), ('i', 4), ('i', 7), ('i', 9), ('i', 10), ('i', 11), ('i', 12), ('i', 20), ('i', 99),
               ('i', 100), ('i', 101), ('none',)]


class WideGen(Gen):
    """Programs outside the bounds of the exhaustive instances: repetition bounds with two and three digits, literals of up
    to 8 characters, up to 5 operands, depth up to 5 - over a small alphabet, so that reference-guided texts are meaningful."""
    def __init__(self, seed):
        Gen.__init__(self, seed, bad_share=0.0, alphabet=[97, 98, 97, 98, 99, 49, 92, 36, 40, 124, 46, 91, 10, 45, 39])

    def string(self, maxlen=8):
        n = self.r.choice([1, 1, 2, 3, 4, 5, 8])
        return tuple(self.cp() for _ in range(min(n, maxlen)))

    def bound(self, valid_only=False):
        return self.r.choice(WIDE_BOUNDS)

    def term(self, depth):
        r = self.r
        if depth > 0 and r.random() < 0.12:
            n = r.choice([3, 4, 5, 6])
            args = [self.term(depth - 1) for _ in range(n)]
            if r.random() < 0.3:                       # an empty operand at some position among many
                args[r.randrange(n)] = r.choice([('Pregex', ()), ('str', ()), ('Exactly', ('str', (97,)), ('i', 0))])
            return (r.choice(['Concat', 'Either', 'Either', 'Enclose']), ('args',) + tuple(args))
        if depth > 0 and r.random() < 0.04:            # counted repetition of an empty operand
            return (r.choice(['AtLeast', 'AtMost']), r.choice([('Pregex', ()), ('str', ())]), self.bound(), r.random() < 0.5)
        return Gen.term(self, depth)


def generate_wide(seed, n):
    out = []
    for i in range(n):
        g = WideGen(seed * 104729 + i)
        out.append(g.term(g.r.choice([2, 3, 4, 4, 5])))
    return out


def generate(seed, n, depth=3, **kw):
    g = Gen(seed, **kw)
    out = []
    for i in range(n):
        out.append(g.term(g.r.choice([1, 2, 2, 3, 3, depth])))
    return out


def to_json(t):
    if isinstance(t, tuple):
        return [to_json(x) for x in t]
    return t


# ----------------------------------------------------------------------------- class programs
CNAMED = ['Digit', 'Letter', 'LowercaseLetter', 'UppercaseLetter', 'Whitespace', 'Punctuation', 'GreekLetter', 'CyrillicLetter']
CTOKS = ['Backslash', 'Dollar', 'Newline', 'Space', 'Euro', 'Tab']


class CGen:
    def __init__(self, seed):
        self.r = random.Random(seed)
        self.base = self.r.choice([43, 90, 36, 97, 0x3AC, 0x10FFF0, 48, 33])

    def cp(self):
        r = self.r
        x = r.random()
        if x < 0.4:
            return r.choice(UV.INCLASS + UV.META)
        if x < 0.75:
            return min(0x10FFFF, self.base + r.randrange(10))      # a neighbourhood: adjacent / overlapping ranges
        if x < 0.9:
            return r.choice([97, 98, 99, 122, 48, 57, 65, 90, 95, 10, 32])
        return r.randrange(0x110000)

    def arg(self):
        r = self.r
        x = r.random()
        if x < 0.85:
            return ('c', self.cp())
        if x < 0.95:
            return ('tok', r.choice(CTOKS))
        return ('bad', r.choice(['multi', 'multiesc', 'int', 'none']))

    def leaf(self):
        r = self.r
        x = r.random()
        neg = r.random() < 0.35
        if x < 0.4:
            return ('CFrom', neg, ('args',) + tuple(self.arg() for _ in range(r.choice([1, 1, 2, 2, 3, 4]))))
        if x < 0.7:
            a, b = self.arg(), self.arg()
            return ('CBetween', neg, a, b)
        if x < 0.8:
            return ('CNamed', neg, r.choice(CNAMED))
        if x < 0.85:
            return ('CWord', neg, r.random() < 0.4)
        if x < 0.88:
            return ('CAny',)
        if x < 0.94:
            return ('CChar', self.cp())
        if x < 0.98:
            return ('CTok', r.choice(CTOKS))
        return ('CBad', r.choice(['multi', 'int', 'pregex', 'none']))

    def term(self, depth):
        r = self.r
        if depth == 0 or r.random() < 0.2:
            return self.leaf()
        x = r.random()
        if x < 0.45:
            return ('COr', self.term(depth - 1), self.term(depth - 1))
        if x < 0.85:
            return ('CSub', self.term(depth - 1), self.term(depth - 1))
        return ('CInv', self.term(depth - 1))


def generate_class_terms(seed, n, depth=3):
    out = []
    for i in range(n):
        g = CGen(seed * 1000003 + i)
        out.append(g.term(g.r.choice([1, 1, 2, 2, 3, depth])))
    return out


def big_class_terms(seed, n):
    """Classes with many single characters (33..70) that contain runs of consecutive code points touching the class
    metacharacters: the constructor's character-to-range compaction on large inputs."""
    out = []
    fill = [c for c in range(33, 127)] + [0xE9, 0x3B1, 0x3B2, 0x3B3, 0x20AC]
    for i in range(n):
        r = random.Random(seed * 7127 + i)
        anchor = r.choice([91, 92, 93, 94, 45, 36, 47, 46])
        lo = anchor - r.randrange(0, 4)
        run = list(range(lo, max(anchor, lo + 2) + r.randrange(1, 4)))
        rest = [c for c in fill if c not in run and abs(c - anchor) > 6]
        k = r.choice([5, 20, 31, 33, 34, 40, 70])
        chars = run + r.sample(rest, min(k, len(rest)))
        r.shuffle(chars)
        t = ('CFrom', r.random() < 0.3, ('args',) + tuple(('c', c) for c in chars))
        x = r.random()
        if x < 0.2:
            t = ('COr', t, CGen(seed + i).leaf())
        elif x < 0.4:
            t = ('CSub', t, CGen(seed + i).leaf())
        elif x < 0.5:
            t = ('CInv', t)
        out.append(t)
    return out
