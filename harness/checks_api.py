"""C11-C14: matching / capture / split / replace API and file sources.

Pipeline G->T: TLC enumerates cache/observer histories (PregexCache, invariant CacheProtocol)
and checks the statements of the properties on the API functions over abstract match lists
(MC_Api); every history is replayed into /repo, every observer call is recorded as an event, and
TLC validates the recorded events against PregexApi (TraceApi), with total verdicts."""
import itertools
import json
import os
import re
import shutil
import tempfile
import time

from . import evidence as EV
from .farm import Farm, split_states
from .runner import report, tier_and_seed
from .tlc import run_tlc, runcfg_module, MachineryError, scratch_root

METHOD_PROP = {'has_match': 'C11', 'is_exact_match': 'C11', 'get_matches': 'C11', 'get_matches_and_pos': 'C11',
               'get_captures': 'C12', 'get_captures_and_pos': 'C12', 'get_named_captures': 'C12',
               'get_named_captures_and_pos': 'C12', 'split_by_match': 'C13', 'split_by_capture': 'C13', 'replace': 'C13',
               'get_matches_with_context': 'C14'}
API_INV = ['WF', 'C11_Slice', 'C12_Slice', 'C12_OnePerMatch', 'C12_IncludeEmpty', 'C13_Split', 'C13_SplitCapture',
           'C13_ReplaceAll', 'C13_ReplaceK', 'C14_Window']

ASSUME = ['the match list of an emitted pattern is what CPython re.finditer/fullmatch return for str(pattern) under MULTILINE|DOTALL '
          '(the harness computes it independently of the library call)',
          'patterns come from a fixed catalogue of 39 DSL expressions; texts are all strings over {a, b, newline} up to the stated length '
          '(plus non-ASCII multi-line contents for file sources)',
          'histories are bounded as stated; each history is replayed on a rotating selection of patterns and texts',
          'split_by_capture is only judged when the captured spans are ordered and disjoint, replace only with plain replacement strings']


def texts_for(tier, nonascii=False):
    n = 3 if tier == 'quick' else 4
    out = [''.join(p) for k in range(0, n + 1) for p in itertools.product('ab\n', repeat=k)]
    out += ["'ab'", "a'b'\n'a", '"a"b""']
    # long texts: many matches, positions with two and three digits, many lines
    out += ['ab' * 12, 'aab\n' * 8, 'a' * 33, 'ab\n' * 10 + 'b', 'b' * 9 + 'a' + 'b' * 95 + 'ab', ('a' * 7 + '\n') * 15 + 'ba']
    if nonascii:
        out += ['äa€b\nab', 'a\nb一a\n', '\U0001F600ab\nAB', 'bß\na']
    return out


def validate_events(events, chunk=25000):
    """Run TraceApi over the events; return (rejected tids, states, transitions)."""
    rejected, states, trans = [], 0, 0
    for i in range(0, len(events), chunk):
        part = events[i:i + chunk]
        doc = []
        for j, (key, ev) in enumerate(part):
            e = {k: v for k, v in ev.items() if k != 'ctx'}
            e['tid'] = i + j
            doc.append(e)
        cfg = 'SPECIFICATION Spec\nPOSTCONDITION Consumed\nCHECK_DEADLOCK FALSE\n'
        r = run_tlc('TraceApi', cfg, runcfg_module({'MaxT': 1, 'NG': 1}, extends=['Integers']), workers=1,
                    extra_files={'trace.json': json.dumps(doc)}, timeout=3000)
        out = r['out']
        if r['generated'] < len(part) + 1 or 'Error:' in out and 'REJECT' not in out.split('Error:')[0][-50:] and r['distinct'] < len(part) + 1:
            raise MachineryError('TraceApi did not consume the whole trace (%d of %d events):\n%s'
                                 % (r['distinct'] - 1, len(part), out[-3000:]))
        for m in re.finditer(r'<<\s*"REJECT",\s*(\d+)\s*>>', out):
            rejected.append(int(m.group(1)))
        states += r['distinct']
        trans += r['generated']
    return rejected, states, trans


def run_stage(name, handles, groups, maxlen, tier, is_path, scratch, nonascii, per_hist):
    defs = {'Handles': set(handles), 'ObsGroups': set(groups), 'MaxLen': maxlen}
    cfg = 'SPECIFICATION Spec\nINVARIANT CacheProtocol\nCHECK_DEADLOCK FALSE\n'
    from . import randterms as RT
    seed = int(os.environ.get('VERIF_SEED', '0') or 0)
    g = RT.Gen(seed * 31 + 5, bad_share=0.0, alphabet=[97, 98, 97, 98, 10, 65, 46])
    rterms = [RT.to_json(g.term(g.r.choice([1, 2, 2, 3]))) for _ in range(60 if tier == 'quick' else 400)]
    params = {'scratch': scratch, 'texts': texts_for(tier, nonascii), 'is_path': is_path, 'random_terms': rterms,
              'patterns_per_history': per_hist[0], 'texts_per_history': per_hist[1]}
    # every history runs under three hash seeds (a result may depend on set iteration order)
    farm = Farm('harness.judge_api.judge', params, seeds=(0, 1, 2), mode='all')

    def consumer(fh):
        for b in split_states(fh, 40):
            farm.submit(b)
    try:
        r = run_tlc('PregexCache', cfg, runcfg_module(defs, extends=['Integers']), workers=4, consumer=consumer)
    finally:
        out = farm.close()
    return r, [x for _, x in out]


def api_check(prop, stages, tier_arg=None):
    tier, seed = tier_and_seed(tier_arg)
    t0 = time.time()
    scratch = tempfile.mkdtemp(prefix='pregex-verif.api.', dir=scratch_root())
    try:
        events, failures, stats = {}, [], {}
        states = trans = 0
        runs = []
        model_viol = []
        # model level: the property statements on the API functions over abstract match lists
        mt, ng = ((3, 1) if tier == 'quick' else (3, 2))
        cfg = 'SPECIFICATION Spec\n' + ''.join('INVARIANT %s\n' % i for i in API_INV) + 'CHECK_DEADLOCK FALSE\n'
        r = run_tlc('MC_Api', cfg, runcfg_module({'MaxT': mt, 'NG': ng}, extends=['Integers']), workers=8, timeout=3000)
        states += r['distinct']
        trans += r['generated']
        runs.append({'name': 'MC_Api MaxT=%d NG=%d' % (mt, ng), 'distinct': r['distinct'], 'generated': r['generated'],
                     'invariants': API_INV, 'tlc_wall_s': round(r['wall_s'], 1)})
        if r['violated']:
            model_viol.append(('MC_Api', r['violated'], r['out'][-2000:]))
        for st in stages(tier):
            r, outs = run_stage(scratch=scratch, tier=tier, **st)
            states += r['distinct']
            trans += r['generated']
            runs.append({'name': st['name'], 'module': 'PregexCache', 'distinct': r['distinct'], 'generated': r['generated'],
                         'invariants': ['CacheProtocol'], 'tlc_wall_s': round(r['wall_s'], 1)})
            if r['violated']:
                model_viol.append((st['name'], r['violated'], r['out'][-2000:]))
            for o in outs:
                for k, v in o['stats'].items():
                    stats[k] = stats.get(k, 0) + v
                for f in o['failures']:
                    failures.append(dict(f, property=prop, kind='api', replay_module='checks_api', term=f.get('pattern', ''),
                                         spelling=f.get('method', '')))
                for key, ev in o['events']:
                    events.setdefault(key, ev)
        evlist = sorted(events.items())
        # only events of this property's methods (and every event when the source is a file, for C14)
        mine = [(k, e) for k, e in evlist if METHOD_PROP[e['m']] == prop or (prop == 'C14' and e['ctx']['is_path'])]
        rejected, s2, t2 = validate_events(mine)
        states += s2
        trans += t2
        runs.append({'name': 'TraceApi', 'module': 'TraceApi', 'events': len(mine), 'rejected': len(rejected)})
        for tid in rejected:
            key, ev = mine[tid]
            ctx = ev['ctx']
            failures.append({'property': prop, 'kind': 'api', 'replay_module': 'checks_api', 'facet': 'rejected-by-spec',
                             'term': ctx['pattern'], 'spelling': ctx['method'], 'method': ctx['method'], 'params': ctx['params'],
                             'pattern': ctx['pattern'], 'pattern_text': ctx['pattern_text'], 'text': ctx['text'], 'pattern_term': ctx.get('pattern_term'),
                             'is_path': ctx['is_path'], 'cached': ctx['cached'], 'history': ctx['history'], 'hashseed': ctx.get('hashseed', 0),
                             'detail': {'result': ev['r'], 'exc': ev['exc'], 'shape_ok': ev['shape'], 'ML': ev['ML'],
                                        'names': ev['names'], 'params': ctx['params']},
                             'event': {k: v for k, v in ev.items() if k != 'ctx'}})
        samples = [{'pattern': e['ctx']['pattern_text'], 'method': e['ctx']['method'], 'params': e['ctx']['params'],
                    'text': e['ctx']['text'], 'history': e['ctx']['history'], 'result': e['r']} for _, e in mine[:200:40]]
        cov = {'states': states, 'transitions': trans, 'traces_validated_against_impl': len(mine),
               'evaluations': stats.get('calls', 0), 'distinct_nontrivial': len(mine),
               'rule': 'histories of compile/get_compiled_pattern(True|False)/purge/observer calls on an object and its alias are '
                       'enumerated by TLC and replayed on rotating catalogue patterns and texts; every distinct observer event '
                       '(method, params, text, match list, result) is validated by TLC against PregexApi; a result that depends on '
                       'the cache state appears as an extra event; non-trivial = distinct events',
               'samples': samples or [{'note': 'no events'}], 'tlc_runs': runs, 'histories_replayed': stats.get('histories', 0),
               'history_executions': stats.get('executions', 0), 'api_calls': stats.get('calls', 0),
               'cache_flag_drift': stats.get('cache-drift', 0), 'exhaustive': True}
        return report(prop, tier, seed, failures, cov, time.time() - t0, ASSUME, model_viol)
    finally:
        shutil.rmtree(scratch, ignore_errors=True)


def simple_stages(groups):
    def f(tier):
        # the same observers on a file source (the statement of C11-C13 does not depend on where the text comes from)
        if tier == 'quick':
            return [dict(name='cache-histories', handles=(1, 2), groups=groups, maxlen=3, is_path=False, nonascii=False, per_hist=(4, 5)),
                    dict(name='cache-histories-file-source', handles=(1,), groups=groups, maxlen=2, is_path=True, nonascii=True, per_hist=(4, 3))]
        return [dict(name='cache-histories', handles=(1, 2), groups=groups, maxlen=4, is_path=False, nonascii=False, per_hist=(8, 10)),
                dict(name='cache-histories-file-source', handles=(1, 2), groups=groups, maxlen=3, is_path=True, nonascii=True, per_hist=(8, 6))]
    return f


def c14_stages(tier):
    q = tier == 'quick'
    return [dict(name='context-windows', handles=(1,), groups=('context',), maxlen=2 if q else 3, is_path=False, nonascii=True,
                 per_hist=(10, 8) if q else (30, 20)),
            dict(name='file-sources', handles=(1, 2) if not q else (1,), groups=('match', 'capture', 'edit', 'context'), maxlen=2 if q else 3, is_path=True,
                 nonascii=True, per_hist=(6, 4) if q else (12, 8))]


def check_C11(tier=None):
    return api_check('C11', simple_stages(('match',)), tier)


def check_C12(tier=None):
    return api_check('C12', simple_stages(('capture',)), tier)


def check_C13(tier=None):
    return api_check('C13', simple_stages(('edit',)), tier)


def check_C14(tier=None):
    return api_check('C14', c14_stages, tier)


CHECKS = {'C11': check_C11, 'C12': check_C12, 'C13': check_C13, 'C14': check_C14}


def replay_record(rec):
    """Re-execute the recorded call against the current tree and validate the event with TLC again."""
    import sys
    sys.path.insert(0, os.path.join(os.environ.get('VERIF_REPO', '/repo'), 'src'))
    from . import judge_api as J
    scratch = tempfile.mkdtemp(prefix='pregex-verif.replay.', dir=scratch_root())
    try:
        r = J.Recorder(scratch)
        psrc = dict(J.PATTERNS).get(rec['pattern']) or rec.get('pattern_term')
        hist = [tuple(h) for h in rec['history']]
        flags = [False] * len(hist)
        J.GROUPS_BACKUP = J.GROUPS
        if rec.get('facet') != 'rejected-by-spec':
            # a probe of the judge itself (iterate / temporary-source / derived-object / long-file / mutated): run the history again
            J._long_done.clear()
            texts = [rec['text']] if not str(rec.get('text', '')).startswith('<') else ['ab']
            J.run_history(r, hist, flags, rec['pattern'], psrc, texts + [t[::-1] for t in texts], rec.get('is_path', False), {'derive_all': True})
            same = [f for f in r.failures if f.get('facet') == rec['facet']]
            for f in same[:3]:
                print('failure:', json.dumps({k: f.get(k) for k in ('facet', 'method', 'params', 'text', 'detail')})[:700])
            print('REPRODUCED' if same else 'not reproduced on the current tree')
            return 1 if same else 0
        J.run_history(r, hist, flags, rec['pattern'], psrc, [rec['text']], rec['is_path'], {})
        evs = [(k, e) for k, e in r.events.items() if e['ctx']['method'] == rec['method'] and e['ctx']['params'] == rec['params']]
        rejected, _, _ = validate_events(evs)
        for tid in rejected:
            print('REJECTED by the specification:', json.dumps({k: v for k, v in evs[tid][1].items() if k != 'ctx'})[:600])
        print('pattern', rec['pattern_text'], 'method', rec['method'], rec['params'], 'text', repr(rec['text']))
        print('REPRODUCED' if rejected else 'not reproduced on the current tree')
        return 1 if rejected else 0
    finally:
        shutil.rmtree(scratch, ignore_errors=True)
