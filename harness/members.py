"""Reference-guided subject texts: strings drawn from (and mutated around) the language of the specification's
reference pattern Ref(v), so that behaviour is also compared on texts that the small exhaustive universes cannot
reach (large repetition bounds, long literals, deep nesting).  The texts only have to be interesting, not members:
both the emitted pattern and the reference are run on them with the same engine."""
import random
import re
import zlib

try:
    import re._parser as sre_parse
    import re._constants as sre_c
except ImportError:  # python < 3.11
    import sre_parse
    import sre_constants as sre_c

FLAGS = re.M | re.S
_CAND = ['k', 'x', 'K', '0', '5', ' ', '\n', '_', '-', 'a', 'Z', 'é']
_cache = {}


def _in_set(items, ch):
    c = ord(ch)
    for op, av in items:
        if op is sre_c.LITERAL and av == c:
            return True
        if op is sre_c.RANGE and av[0] <= c <= av[1]:
            return True
        if op is sre_c.CATEGORY:
            if av is sre_c.CATEGORY_DIGIT and ch.isdigit():
                return True
            if av is sre_c.CATEGORY_NOT_DIGIT and not ch.isdigit():
                return True
            if av is sre_c.CATEGORY_SPACE and ch.isspace():
                return True
            if av is sre_c.CATEGORY_NOT_SPACE and not ch.isspace():
                return True
            if av is sre_c.CATEGORY_WORD and (ch.isalnum() or ch == '_'):
                return True
            if av is sre_c.CATEGORY_NOT_WORD and not (ch.isalnum() or ch == '_'):
                return True
    return False


class _TooLong(Exception):
    pass


def _subtrees(nodes):
    for op, av in nodes:
        yield op, av
        if op is sre_c.BRANCH:
            for alt in av[1]:
                yield from _subtrees(alt)
        elif op is sre_c.SUBPATTERN:
            yield from _subtrees(av[-1])
        elif op in (sre_c.MAX_REPEAT, sre_c.MIN_REPEAT):
            yield from _subtrees(av[2])
        elif op in (sre_c.ASSERT, sre_c.ASSERT_NOT):
            yield from _subtrees(av[1])
        elif op is sre_c.GROUPREF_EXISTS:
            yield from _subtrees(av[1])
            if av[2]:
                yield from _subtrees(av[2])


def risky(tree):
    """A repetition that may iterate more than 3 times over a body containing an alternation, another repetition or a
    back-reference: matching a long text may backtrack exponentially, so only short texts are generated."""
    for op, av in _subtrees(tree):
        if op in (sre_c.MAX_REPEAT, sre_c.MIN_REPEAT) and (av[1] is sre_c.MAXREPEAT or av[1] > 3):
            for o2, a2 in _subtrees(av[2]):
                if o2 is sre_c.BRANCH or o2 in (sre_c.GROUPREF, sre_c.GROUPREF_EXISTS) or \
                        (o2 in (sre_c.MAX_REPEAT, sre_c.MIN_REPEAT) and (a2[1] is sre_c.MAXREPEAT or a2[1] > 1)):
                    return True
    return False


def nullable(nodes):
    for op, av in nodes:
        if op in (sre_c.LITERAL, sre_c.NOT_LITERAL, sre_c.ANY, sre_c.IN):
            return False
        if op is sre_c.BRANCH:
            if not any(nullable(a) for a in av[1]):
                return False
        elif op is sre_c.SUBPATTERN:
            if not nullable(av[-1]):
                return False
        elif op in (sre_c.MAX_REPEAT, sre_c.MIN_REPEAT):
            if av[0] > 0 and not nullable(av[2]):
                return False
        elif op is sre_c.GROUPREF_EXISTS:
            if not (nullable(av[1]) or (av[2] is None or nullable(av[2]))):
                return False
        # AT, ASSERT, ASSERT_NOT, GROUPREF (may be empty): zero width possible
    return True


_expl = {}


def explosive(ref):
    """A repetition with a lower bound or a finite upper bound above 3 over a body that can match the empty string in more than one way
    (it contains an alternation or a repetition): CPython's re may try bound-many empty iterations in every
    combination, even on a text of two characters.  Behaviour of such references is not compared."""
    r = _expl.get(ref)
    if r is None:
        r = False
        try:
            tree = sre_parse.parse(ref, FLAGS)
            for op, av in _subtrees(tree):
                if op in (sre_c.MAX_REPEAT, sre_c.MIN_REPEAT) and (av[0] > 3 or (av[1] is not sre_c.MAXREPEAT and av[1] > 3)) and nullable(av[2]):
                    if any(o2 is sre_c.BRANCH or o2 in (sre_c.MAX_REPEAT, sre_c.MIN_REPEAT) for o2, _ in _subtrees(av[2])):
                        r = True
                        break
        except Exception:  # noqa
            r = False
        if len(_expl) > 20000:
            _expl.clear()
        _expl[ref] = r
    return r


class _Walk:
    def __init__(self, rnd, budget=260):
        self.r = rnd
        self.groups = {}
        self.budget = budget

    def seq(self, nodes):
        out = []
        for op, av in nodes:
            s = self.node(op, av)
            self.budget -= len(s) if op in (sre_c.LITERAL, sre_c.NOT_LITERAL, sre_c.ANY, sre_c.IN, sre_c.GROUPREF) else 0
            if self.budget < 0:
                raise _TooLong()
            out.append(s)
        return ''.join(out)

    def node(self, op, av):
        r = self.r
        if op is sre_c.LITERAL:
            return chr(av)
        if op is sre_c.NOT_LITERAL:
            return next((c for c in _CAND if ord(c) != av), 'k')
        if op is sre_c.ANY:
            return r.choice(['x', '\n', 'k'])
        if op is sre_c.IN:
            items = list(av)
            neg = bool(items) and items[0][0] is sre_c.NEGATE
            if neg:
                items = items[1:]
                cands = [c for c in _CAND if not _in_set(items, c)]
                return r.choice(cands) if cands else ''
            o, a = r.choice(items)
            if o is sre_c.LITERAL:
                return chr(a)
            if o is sre_c.RANGE:
                return chr(r.choice([a[0], a[1], (a[0] + a[1]) // 2]))
            if o is sre_c.CATEGORY:
                cands = [c for c in _CAND if _in_set([(o, a)], c)]
                return r.choice(cands) if cands else ''
            return ''
        if op is sre_c.BRANCH:
            return self.seq(r.choice(av[1]))
        if op is sre_c.SUBPATTERN:
            g, p = av[0], av[-1]
            s = self.seq(p)
            if g:
                self.groups[g] = s
            return s
        if op in (sre_c.MAX_REPEAT, sre_c.MIN_REPEAT) or getattr(sre_c, 'POSSESSIVE_REPEAT', None) is op:
            lo, hi, p = av
            opts = {lo, lo + 1}
            if hi is not sre_c.MAXREPEAT and hi <= lo + 120:
                opts |= {hi, max(lo, hi - 1)}
            else:
                opts.add(lo + 2)
            n = r.choice(sorted(o for o in opts if o <= 130))
            return ''.join(self.seq(p) for _ in range(n))
        if op is sre_c.GROUPREF:
            return self.groups.get(av, '')
        if op is sre_c.GROUPREF_EXISTS:
            g, yes, no = av
            return self.seq(yes) if g in self.groups else (self.seq(no) if no else '')
        return ''          # AT, ASSERT, ASSERT_NOT, ...: zero width


def texts_for(ref, n_samples=4, limit=14):
    """Deterministic (per reference text) list of subject texts."""
    r = _cache.get(ref)
    if r is not None:
        return r
    out = []
    try:
        tree = sre_parse.parse(ref, FLAGS)
    except Exception:  # noqa: the reference does not parse: nothing to add
        tree = None
    if tree is not None:
        rnd = random.Random(zlib.crc32(ref.encode('utf-8', 'surrogatepass')))
        seen = set()
        maxlen = 14 if risky(tree) else 260
        for _ in range(n_samples):
            try:
                s = _Walk(rnd, maxlen).seq(tree)
            except Exception:  # noqa: too long, or a construct the walker does not know
                continue
            cands = [s]
            if s:
                i = rnd.randrange(len(s))
                cands += [s[:i] + s[i + 1:], s[:i] + s[i] + s[i:], s + s[-1], 'k' + s, s + 'k'] + ([s + '\n' + s] if len(s) < 7 else [])
            for c in cands:
                if c not in seen and len(out) < limit:
                    seen.add(c)
                    out.append(c)
    if len(_cache) > 5000:
        _cache.clear()
    _cache[ref] = tuple(out)
    return _cache[ref]
