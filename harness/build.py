"""Interpret the surface terms of the TLA+ specification against the real library.

A surface term is a nested tuple <<op, args...>> exactly as TLC prints it (parsed by
tlaval).  `build(term, spelling)` executes it through the public API in the requested
spelling ('class', 'method', 'method_left', 'operator', 'roperator') and returns the
resulting object (a Pregex, or a plain str for a bare string leaf).
"""
import warnings
warnings.simplefilter('ignore')

from pregex.core.pre import Pregex
import pregex.core.classes as cl
import pregex.core.operators as op
import pregex.core.quantifiers as qu
import pregex.core.groups as gr
import pregex.core.assertions as asr
import pregex.core.tokens as tk
import pregex.core.exceptions as ex

PREGEX_EXCEPTIONS = tuple(getattr(ex, n) for n in dir(ex)
                          if isinstance(getattr(ex, n), type) and issubclass(getattr(ex, n), Exception))

TOKENS = {'Backslash': 92, 'Bullet': 0x2022, 'CarriageReturn': 13, 'Copyright': 0xA9, 'Division': 0xF7,
          'Dollar': 36, 'Euro': 0x20AC, 'FormFeed': 12, 'Infinity': 0x221E, 'Multiplication': 0xD7,
          'Newline': 10, 'Pound': 0xA3, 'Registered': 0xAE, 'Rupee': 0x20B9, 'Space': 32, 'Tab': 9,
          'Trademark': 0x2122, 'VerticalTab': 11, 'WhiteBullet': 0x25E6, 'Yen': 0xA5}


def S(cps):
    return ''.join(map(chr, cps))


class SkipSpelling(Exception):
    """This spelling of the term falls into a zone the documentation leaves unspecified."""


class BadValue:
    """An argument of a type the documentation does not allow."""
    def __repr__(self):
        return '<BadValue>'


def bad(kind):
    return {'int': 5, 'none': None, 'list': ['a'], 'float': 1.5, 'obj': BadValue(), 'bytes': b'a'}[kind]


def bound(a):
    t = a[0]
    if t == 'i':
        return a[1]
    return {'none': None, 'bool': True, 'float': 1.5, 'str': '1', 'neg': -1, 'boolf': False, 'float0': 0.0, 'float1': 1.0, 'float2': 2.0, 'float10': 10.0}[t]


def name(a):
    t = a[0]
    if t == 'none':
        return None
    if t == 'name':
        return a[1]
    return {'badname': '1a', 'badtype': 5, 'badname2': 'a-b', 'empty': ''}[t]


ANCH = {'bos': (asr.MatchAtStart, 'match_at_start'), 'eos': (asr.MatchAtEnd, 'match_at_end'),
        'bol': (asr.MatchAtLineStart, 'match_at_line_start'), 'eol': (asr.MatchAtLineEnd, 'match_at_line_end')}
LOOK = {('ahead', True): (asr.FollowedBy, 'followed_by'), ('ahead', False): (asr.NotFollowedBy, 'not_followed_by'),
        ('behind', True): (asr.PrecededBy, 'preceded_by'), ('behind', False): (asr.NotPrecededBy, 'not_preceded_by'),
        ('both', True): (asr.EnclosedBy, 'enclosed_by'), ('both', False): (asr.NotEnclosedBy, 'not_enclosed_by')}
QUANT = {'Optional': (qu.Optional, 'optional'), 'Indefinite': (qu.Indefinite, 'indefinite'),
         'OneOrMore': (qu.OneOrMore, 'one_or_more'), 'Exactly': (qu.Exactly, 'exactly'),
         'AtLeast': (qu.AtLeast, 'at_least'), 'AtMost': (qu.AtMost, 'at_most'),
         'AtLeastAtMost': (qu.AtLeastAtMost, 'at_least_at_most')}
BINOP = {'Concat': (op.Concat, 'concat'), 'Either': (op.Either, 'either'), 'Enclose': (op.Enclose, 'enclose')}


def spellings(term):
    """The spellings that exist for the top operator of a term."""
    o = term[0]
    if o in BINOP and len(term[1]) - 1 == 0:
        return ['class']
    if o == 'Concat':
        n = len(term[1]) - 1
        sp = ['class', 'method']
        if n == 2:
            sp += ['method_left', 'operator']
        return sp
    if o == 'Either':
        return ['class', 'method'] + (['method_left'] if len(term[1]) - 1 == 2 else [])
    if o in ('Enclose', 'Capture', 'Group', 'Anchor', 'Look') or o in QUANT:
        return ['class', 'method']
    if o == 'Mul':
        return ['operator', 'roperator']
    return ['class']


def to_p(x):
    return Pregex(x) if isinstance(x, str) else x


def build(term, sp='class'):
    o = term[0]
    if o == 'str':
        return S(term[1])
    if o == 'Pregex':
        return Pregex(S(term[1]))
    if o == 'badarg':
        return bad(term[1])
    if o == 'Token':
        return getattr(tk, term[1])()
    if o == 'WordBoundary':
        return asr.WordBoundary()
    if o == 'NonWordBoundary':
        return asr.NonWordBoundary()
    if o in ('AnyFrom', 'AnyButFrom'):
        return getattr(cl, o)(*[chr(c) for c in term[1]])
    if o in ('AnyBetween', 'AnyButBetween'):
        return getattr(cl, o)(chr(term[1]), chr(term[2]))
    if o.startswith('Any') and len(term) == 1:
        return getattr(cl, o)()
    if o == 'Class':
        return getattr(cl, term[1])()

    def B(t):          # operand as the caller would pass it (str stays str)
        return build(t, sp if sp in ('class', 'method') else 'class')

    def R(t):          # receiver of a method call
        r = to_p(B(t))
        if not isinstance(r, Pregex):
            raise SkipSpelling()          # an invalid argument cannot be the receiver of a method
        return r

    if o in BINOP:
        args = [B(a) for a in term[1][1:]]
        cls_, meth = BINOP[o]
        if sp == 'class' or len(args) == 0:
            return cls_(*args)
        if sp in ('method', 'method_left', 'operator') and not all(isinstance(a, (str, Pregex)) for a in args[:1 if sp == 'method' else 2]):
            raise SkipSpelling()
        if sp == 'method':
            r = to_p(args[0])
            for a in args[1:]:
                r = getattr(r, meth)(a)
            return r
        if sp == 'method_left':
            recv = to_p(args[1])
            if o == 'Either' and isinstance(recv, Pregex) and str(recv) == '':
                raise SkipSpelling()      # empty receiver of .either(): unspecified, like Either('', x)
            return getattr(recv, meth)(args[0], on_right=False)
        if sp == 'operator':
            a, b = args
            if isinstance(a, str) and isinstance(b, str):
                return to_p(a) + b
            return a + b
    if o in QUANT:
        cls_, meth = QUANT[o]
        params = []
        for a in term[2:]:
            params.append(a if isinstance(a, bool) else bound(a))
        if sp == 'class':
            return cls_(B(term[1]), *params)
        return getattr(R(term[1]), meth)(*params)
    if o == 'Mul':
        n = bound(term[2])
        return R(term[1]) * n if sp == 'operator' else n * R(term[1])
    if o == 'Capture':
        nm = name(term[2])
        return gr.Capture(B(term[1]), nm) if sp == 'class' else R(term[1]).capture(nm)
    if o == 'Group':
        return gr.Group(B(term[1]), term[2]) if sp == 'class' else R(term[1]).group(term[2])
    if o == 'Anchor':
        cls_, meth = ANCH[term[1]]
        return cls_(B(term[2])) if sp == 'class' else getattr(R(term[2]), meth)()
    if o == 'Look':
        cls_, meth = LOOK[(term[1], term[2])]
        assertions = [B(a) for a in term[4][1:]]
        if sp == 'class' or not assertions:          # "too few arguments" only exists in the class form
            return cls_(B(term[3]), *assertions)
        r = R(term[3])
        for a in assertions:
            r = getattr(r, meth)(a)
        return r
    if o == 'Backreference':
        a = term[1]
        # 'badtype' of a group name is the int 5 - a valid numeric reference here: use a float for a wrongly typed reference
        return gr.Backreference(a[1] if a[0] in ('i', 'name') else True if a[0] == 'bool' else 1.5 if a[0] == 'badtype' else name(a))
    if o == 'Conditional':
        nm = name(term[1])
        if len(term) == 3:
            return gr.Conditional(nm, B(term[2]))
        return gr.Conditional(nm, B(term[2]), B(term[3]))
    raise ValueError('unknown surface operator %r' % (o,))


def chars_of(term, acc=None):
    """Code points that occur in the literals/classes/tokens of a term."""
    if acc is None:
        acc = set()
    o = term[0]
    if o in ('str', 'Pregex', 'AnyFrom', 'AnyButFrom'):
        acc.update(term[1])
    elif o in ('AnyBetween', 'AnyButBetween'):
        acc.update(term[1:3])
    elif o == 'Token':
        acc.add(TOKENS[term[1]])
    else:
        for a in term[1:]:
            if isinstance(a, tuple) and a and isinstance(a[0], str):
                chars_of(a, acc)
    return acc


def has_op(term, pred):
    if pred(term):
        return True
    return any(isinstance(a, tuple) and a and isinstance(a[0], str) and has_op(a, pred) for a in term[1:])


def render(term):
    """Human-readable Python-ish rendering of a term (for samples and known-finding matchers)."""
    o = term[0]
    if o == 'str':
        return repr(S(term[1]))
    if o == 'Pregex':
        return 'Pregex(%r)' % S(term[1])
    if o == 'badarg':
        return '<bad:%s>' % term[1]
    if o == 'Token':
        return term[1] + '()'
    if o in ('AnyFrom', 'AnyButFrom'):
        return '%s(%s)' % (o, ', '.join(repr(chr(c)) for c in term[1]))
    if o in ('AnyBetween', 'AnyButBetween'):
        return '%s(%r, %r)' % (o, chr(term[1]), chr(term[2]))
    if o == 'Class':
        return term[1] + '()'
    if o in BINOP:
        return '%s(%s)' % (o, ', '.join(render(a) for a in term[1][1:]))
    if o in QUANT or o == 'Mul':
        ps = []
        for a in term[2:]:
            ps.append(repr(a) if isinstance(a, bool) else repr(bound(a)))
        return '%s(%s)' % (o, ', '.join([render(term[1])] + ps))
    if o == 'Capture':
        return 'Capture(%s, %r)' % (render(term[1]), name(term[2]))
    if o == 'Group':
        return 'Group(%s, %r)' % (render(term[1]), term[2])
    if o == 'Anchor':
        return '%s(%s)' % (ANCH[term[1]][0].__name__, render(term[2]))
    if o == 'Look':
        return '%s(%s)' % (LOOK[(term[1], term[2])][0].__name__,
                           ', '.join([render(term[3])] + [render(a) for a in term[4][1:]]))
    if o == 'Backreference':
        return 'Backreference(%r)' % (term[1][1] if term[1][0] in ('i', 'name') else term[1][0],)
    if o == 'Conditional':
        return 'Conditional(%s)' % ', '.join([repr(name(term[1]))] + [render(a) for a in term[2:]])
    if len(term) == 1:
        return o + '()'
    return repr(term)
