"""Fill the generated tables of DESIGN.md (fix table, appendix C) from known_findings.json and seeded/*/meta.json."""
import glob
import json
import os
import re

VERIF = os.path.dirname(os.path.dirname(os.path.abspath(__file__)))


def fix_table():
    d = json.load(open(os.path.join(VERIF, 'known_findings.json')))
    rows = []
    for f in d['findings']:
        if f['status'] == 'fixed':
            rows.append('| `%s` | %s (also seen by %s) | %s |' % (f['commit'], f['property'], ', '.join(x for x in f['also_observed_by'] if x != f['property']) or '-',
                                                            f['title'].replace('|', '\\|')))
    return '\n'.join(rows)


def seeded_table():
    rows = ['| id | what was changed | needs | detected by (quick tier) |', '|---|---|---|---|']
    for p in sorted(glob.glob(os.path.join(VERIF, 'seeded', '*', 'meta.json'))):
        m = json.load(open(p))
        rows.append('| %s | %s | %s | %s |' % (m['id'], (m.get('summary') or '').replace('|', '\\|')[:260], (m.get('needs') or '').replace('|', '\\|')[:220],
                                              ', '.join(m.get('detected_by') or []) or ('outside the specified zone (no verdict by design)' if m.get('outside_specified_zone') else '**missed**')))
    return '\n'.join(rows)


def main():
    path = os.path.join(VERIF, 'DESIGN.md')
    s = open(path).read()
    s = re.sub(r'(<!-- FIXTABLE -->\n).*?(\n<!-- /FIXTABLE -->)', lambda m: m.group(1) + fix_table() + m.group(2), s, flags=re.S)
    s = s.replace('@@FIXTABLE@@', '<!-- FIXTABLE -->\n' + fix_table() + '\n<!-- /FIXTABLE -->')
    app = '## Appendix C - seeded faults\n\n<!-- SEEDED -->\n' + seeded_table() + '\n<!-- /SEEDED -->\n'
    if '## Appendix C - seeded faults' in s:
        s = re.sub(r'## Appendix C - seeded faults\n\n<!-- SEEDED -->\n.*?\n<!-- /SEEDED -->\n', lambda m: app, s, flags=re.S)
    else:
        s = s.rstrip('\n') + '\n\n' + app
    open(path, 'w').write(s)


if __name__ == '__main__':
    main()
