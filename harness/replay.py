"""vf replay <file>: re-execute a recorded violation against /repo's current tree."""
import json
import os
import sys

REPO = os.environ.get('VERIF_REPO', '/repo')


def _tuplify(x):
    if isinstance(x, list):
        return tuple(_tuplify(e) for e in x)
    return x


def replay(path):
    sys.path.insert(0, os.path.join(REPO, 'src'))
    rec = json.load(open(path))
    kind = rec.get('kind', 'compose')
    print('property %s facet %s' % (rec.get('property'), rec.get('facet')))
    if kind == 'compose':
        from . import judge_compose as J
        term = _tuplify(rec['term_raw'])
        exp = rec['expected']
        res = {'ok': exp['ok'], 'ex': set(exp['ex']), 'ref': exp['ref'], 'caps': tuple(exp['caps']),
               'refsdef': True, 'tags': set()}
        fails, info = J.observe_case(term, rec['spelling'], res, deep=True, members=True)
        print('term      :', rec['term'], '[%s]' % rec['spelling'])
        print('expected  :', exp)
        print('observed  :', info)
        still = [f for f in fails if f[0] == rec['facet']]
        for f in fails:
            print('failure   :', f)
        print('REPRODUCED' if still else 'not reproduced on the current tree')
        return 1 if still else 0
    mod = __import__('harness.' + rec['replay_module'], fromlist=['replay_record'])
    return mod.replay_record(rec)
