"""vf setup: parse every specification module with SANY (nothing depends on /repo)."""
import glob
import os
import shutil
import subprocess
import tempfile

from .tlc import SPEC_DIR, JAR, CM, scratch_root, runcfg_module

DEFAULT_RUNCFG = {'Wins': {(97, 36, 91)}, 'MaxD': 1, 'OpSel': {'concat'}, 'PoolSel': {'class'},
                  'Quants': {('Optional', 0, 1, True)}, 'Names': {'n'}, 'Strs': {(97,)}, 'SemLen': 1, 'SemWin': (97, 98), 'Bounds': {(0, 1)},
                  'CArgs': {('c', 97)}, 'MaxFrom': 1, 'CWin': (97, 98), 'CSel': {'alg'},
                  'AlgWin': {97, 98, 99}, 'TxtWin': {97, 45, 92}, 'MaxR': 1, 'MaxC': 1, 'AlgOp': 'or', 'IPAlpha': {49}, 'DecBasePars': set(), 'DecMids': set(), 'DecCtxs': set(), 'IPAddrs': set(), 'IPCtxs': set(), 'Pars': set(), 'DateFmtLists': set(), 'DateCands': set(), 'DateExts': set(), 'HLeaves': {'a'}, 'HOps': {'concat'}, 'MaxHeap': 3, 'Handles': {1}, 'ObsGroups': {'match'}, 'MaxLen': 2, 'MaxT': 2, 'NG': 1}


def setup():
    sdir = tempfile.mkdtemp(prefix='pregex-verif.setup.', dir=scratch_root())
    bad = 0
    try:
        for f in glob.glob(os.path.join(SPEC_DIR, '*.tla')):
            shutil.copy(f, sdir)
        if not os.path.exists(os.path.join(sdir, 'RunCfg.tla')):
            with open(os.path.join(sdir, 'RunCfg.tla'), 'w') as fh:
                fh.write(runcfg_module(DEFAULT_RUNCFG, extends=['Integers']))
        for f in sorted(glob.glob(os.path.join(sdir, '*.tla'))):
            if os.path.basename(f) in SKIP:
                continue
            pr = subprocess.run(['java', '-cp', JAR + ':' + CM, 'tla2sany.SANY', os.path.basename(f)],
                                cwd=sdir, capture_output=True, text=True)
            ok = pr.returncode == 0 and '*** Errors' not in pr.stdout and 'Fatal' not in pr.stdout and 'Could not' not in pr.stdout
            print('%-24s %s' % (os.path.basename(f), 'ok' if ok else 'FAILED'))
            if not ok:
                print(pr.stdout[-1500:])
                bad += 1
    finally:
        shutil.rmtree(sdir, ignore_errors=True)
    return 1 if bad else 0


SKIP = set()
