"""Dev aid: state counts of the spine configurations of a check (model only, no replay)."""
import sys
import time
from . import checks_compose as CC
from .tlc import run_tlc, runcfg_module


def main(argv):
    which, tier = argv[0], argv[1]
    fn = {'c02': CC.compose_configs, 'c08': CC.group_configs, 'c09': CC.repeat_configs, 'c10': CC.width_configs,
          'c05': CC.empty_configs, 'c01': CC.literal_configs, 'c04': CC.quant_configs, 'c03': CC.total_configs}[which]
    for c in fn(tier, 0):
        if c.get('module') != 'PregexSpine':
            continue
        t0 = time.time()
        try:
            r = run_tlc('PregexSpine', 'SPECIFICATION Spec\nCHECK_DEADLOCK FALSE\n', runcfg_module(c['defs'], extends=['Integers']), workers=16, timeout=2400)
            print(c['name'], 'distinct', r['distinct'], 'tlc %.0fs' % (time.time() - t0), flush=True)
        except Exception as e:
            print(c['name'], 'FAILED', str(e)[:200], flush=True)


if __name__ == '__main__':
    main(sys.argv[1:])
