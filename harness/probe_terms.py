import sys, time, collections, json
from . import checks_compose as CC
from .runner import run_generated
def main(argv):
    t=time.time()
    res=run_generated(CC.random_term_configs('quick', int(argv[0]), n_quick=int(argv[1])),'harness.judge_compose.judge',{'prop':'CENSUS','facets':['crash','exc','accepted','compile','behaviour','caps','export','emptytext']})
    print(res.states, dict(res.agg.stats), round(time.time()-t,1))
    g=collections.defaultdict(list)
    for f in res.agg.failures: g[(f['facet'], str(f['detail'].get('observed',''))[:40])].append(f)
    for k,v in sorted(g.items(), key=lambda kv:-len(kv[1])):
        print(len(v),k)
        for f in v[:6]: print('    ',f['term'][:150],'[%s]'%f['spelling'],json.dumps(f['detail'])[:300])
    for mv in res.model_violations[:1]: print(mv[0],mv[1],mv[2][-2500:])
if __name__=='__main__': main(sys.argv[1:])
