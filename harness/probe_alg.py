import sys
from .tlc import run_tlc, runcfg_module
def main(argv):
    op, n, mr, mc = argv[0], int(argv[1]), int(argv[2]), int(argv[3])
    cfg='SPECIFICATION Spec\nINVARIANT UnionCorrect\nINVARIANT SubCorrect\nINVARIANT RangesWellFormed\nPROPERTY Termination\nCHECK_DEADLOCK FALSE\n'
    r=run_tlc('ImplClassAlg',cfg,runcfg_module({'AlgWin':set(range(97,97+n)),'MaxR':mr,'MaxC':mc,'AlgOp':op},extends=['Integers']),workers=8,timeout=3000)
    print(op,n,mr,mc,r['generated'],r['distinct'],r['violated'],round(r['wall_s'],1))
    if r['violated'] or r['rc']: print(r['out'][-3500:])
if __name__=='__main__': main(sys.argv[1:])
