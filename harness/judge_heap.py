"""C20: replay heap histories (PregexHeap) into the library; after every call the projection of every
live object must equal its projection at creation, and every object must behave like the reference
text of its specified value (which depends on the operand values only)."""
import collections
import itertools
import re

from .tlaval import parse_state
from . import build as B
from . import observe as O

from pregex.core.pre import Pregex
import pregex.core.classes as cl
import pregex.core.operators as op
import pregex.core.assertions as asr
import pregex.core.groups as gr

LEAVES = {'a': lambda: Pregex('a'), 'ab': lambda: Pregex('ab'), 'empty': lambda: Pregex(), 'dollar': lambda: Pregex('a$'),
          'from': lambda: cl.AnyFrom('a', 'c'), 'between': lambda: cl.AnyBetween('a', 'c'),
          'alt': lambda: op.Either('a', 'ba'), 'anchor': lambda: asr.MatchAtLineStart('a'),
          'altdup': lambda: op.Either('ab', 'a', 'abc', 'ab'), 'aei': lambda: cl.AnyFrom('a', 'e', 'i'), 'ce': lambda: cl.AnyFrom('c', 'e'),
          'grp_ci': lambda: gr.Group('ab', is_case_insensitive=True), 'bos': lambda: asr.MatchAtStart('a')}
UNI = O.universe(set('abceiAB$\n'), (), 3, set('ab'), 5)
MATCH_TEXTS = ('ab\na$c', 'xab', 'ba', 'a', '', 'cab ab')


def projection(p):
    d = {'str': str(p), 'type': p._get_type().name, 'repeatable': p._is_repeatable(), 'pattern': p.get_pattern()}
    if hasattr(p, '_get_verbose_pattern'):
        d['verbose_sorted'] = ''.join(sorted(p._get_verbose_pattern()))
    try:
        d['table'] = O.table(str(p), UNI)
    except re.error as e:
        d['table'] = 're.error: %s' % e
    return d


EXPECTED_REFUSAL = {'one_or_more': 'CannotBeRepeatedException', 'exactly': 'CannotBeRepeatedException', 'mul': 'CannotBeRepeatedException',
                    'at_most': 'CannotBeRepeatedException', 'not_preceded_by': None, 'or': 'CannotBeUnionedException', 'sub': 'EmptyClassException'}


_files = {}


def _match_file(text):
    import os
    import tempfile
    p = _files.get(text)
    if p is None or not os.path.exists(p):
        d = os.path.join(os.environ.get('VERIF_SCRATCH') or os.environ.get('TMPDIR') or '/var/tmp', 'pregex-verif.heapfiles')
        os.makedirs(d, exist_ok=True)
        fd, p = tempfile.mkstemp(prefix='ab_aab_', suffix='.txt', dir=d)
        with os.fdopen(fd, 'w', encoding='utf-8', newline='') as fh:
            fh.write(text)
        _files[text] = p
        import atexit
        atexit.register(lambda q=p: os.path.exists(q) and os.unlink(q))
    return p


def apply(objs, act):
    o, i, j, n = act
    if o.startswith('!'):
        # a refused call: it must raise a library exception, every time
        try:
            apply(objs, (o[1:], i, j, n))
        except B.PREGEX_EXCEPTIONS:
            return None, False
        raise HistoryDependent('the call %s%r was accepted although the specification refuses it (earlier identical calls were refused)' % (o[1:], (i, j, n)))
    if o == 'new':
        return LEAVES[i](), True
    x = objs[i - 1] if i else None
    y = objs[j - 1] if j else None
    if o == 'concat':
        return x.concat(y), True
    if o == 'add':
        return x + y, True
    if o == 'either':
        return x.either(y), True
    if o == 'enclose':
        return x.enclose(y), True
    if o == 'optional':
        return x.optional(), True
    if o == 'one_or_more':
        return x.one_or_more(False), True
    if o == 'exactly':
        return x.exactly(n), True
    if o == 'mul':
        return x * n, True
    if o == 'at_most':
        return x.at_most(n), True
    if o == 'capture':
        return x.capture(), True
    if o == 'capture_n':
        return x.capture('n'), True
    if o == 'capture_m':
        return x.capture('m'), True
    if o == 'sub':
        return x - y, True
    if o == 'group':
        return x.group(), True
    if o == 'group_ci':
        return x.group(is_case_insensitive=True), True
    if o == 'followed_by':
        return x.followed_by(y), True
    if o == 'not_preceded_by':
        return x.not_preceded_by(y), True
    if o == 'match_at_line_start':
        return x.match_at_line_start(), True
    if o == 'or':
        return x | y, True
    if o == 'invert':
        return ~x, True
    if o == 'compile':
        x.compile()
        return None, False
    if o == 'get_compiled_keep':
        x.get_compiled_pattern(discard_after=False)
        return None, False
    if o == 'get_compiled_discard':
        x.get_compiled_pattern(discard_after=True)
        return None, False
    if o == 'match':
        pat = str(x)
        # the same question asked about a file: the answer is about the file's text, whatever the object went through before
        t = MATCH_TEXTS[0]
        exp = [m.group(0) for m in re.finditer(pat, t, O.FLAGS)]
        got = x.get_matches(_match_file(t), is_path=True)
        if got != exp or list(x.iterate_matches(_match_file(t), is_path=True)) != exp:
            raise HistoryDependent('matching the file containing %r with %r after this history: %r, re gives %r' % (t, pat, got, exp))
        for t in MATCH_TEXTS:
            got = (x.has_match(t), x.get_matches(t), x.is_exact_match(t))
            exp = (re.search(pat, t, O.FLAGS) is not None, [m.group(0) for m in re.finditer(pat, t, O.FLAGS)],
                   re.fullmatch(pat, t, O.FLAGS) is not None)
            if got != exp:
                raise HistoryDependent('matching %r with %r after this history: %r, re gives %r' % (t, pat, got, exp))
        return None, False
    raise ValueError(o)


class HistoryDependent(Exception):
    pass


def render(hist):
    return ' ; '.join('%s(%s)' % (a[0], ', '.join(str(x) for x in a[1:] if x != 0)) for a in hist)


def judge_sim(payload, params):
    """payload: histories printed by a TLC simulation run, as (hist, refs)."""
    return judge([{'hist': h, 'heap': [{'ref': r} for r in refs]} for h, refs in payload], dict(params, min_len=0))


def judge(payload, params):
    stats = collections.Counter()
    failures, samples = [], []
    primary = params.get('hashseed', 0) == 0
    for raw in payload:
        st = raw if isinstance(raw, dict) else parse_state(raw)
        hist = st['hist']
        if len(hist) < params['min_len']:
            continue
        if primary:
            stats['states'] += 1
            stats['nontrivial'] += 1
        stats['cases'] += 1
        objs, created = [], []
        rec0 = {'property': params.get('prop', 'C20'), 'kind': 'heap', 'replay_module': 'judge_heap', 'term': render(hist), 'term_raw': hist,
                'spelling': 'method', 'hashseed': params.get('hashseed', 0), 'refs': [h['ref'] for h in st['heap']]}
        try:
            for step, act in enumerate(hist):
                r, isnew = apply(objs, act)
                if isnew:
                    objs.append(r)
                    created.append(projection(r))
                for k, o in enumerate(objs):
                    now = projection(o)
                    if now != created[k]:
                        diff = sorted(f for f in now if now[f] != created[k][f])
                        failures.append(dict(rec0, facet='mutated', detail={'object': k + 1, 'after_step': step + 1, 'changed': diff,
                                                                            'before': created[k]['str'], 'after': now['str']}))
                        created[k] = now
            for k, o in enumerate(objs):
                ref = st['heap'][k]['ref']
                tr = O.table(ref, UNI)
                if created[k]['table'] != tr:
                    d = O.first_diff(created[k]['table'], tr, UNI) if not isinstance(created[k]['table'], str) else {'error': created[k]['table']}
                    failures.append(dict(rec0, facet='value', detail=dict(d or {}, object=k + 1, emitted=created[k]['str'], reference=ref)))
                elif not isinstance(created[k]['table'], str):
                    gi, gr = dict(re.compile(created[k]['str'], O.FLAGS).groupindex), dict(re.compile(ref, O.FLAGS).groupindex)
                    if gi != gr:
                        failures.append(dict(rec0, facet='value', detail={'object': k + 1, 'emitted': created[k]['str'], 'reference': ref,
                                                                          'groups': gi, 'expected_groups': gr}))
        except HistoryDependent as e:
            failures.append(dict(rec0, facet='history-dependent', detail={'message': str(e)[:400]}))
        except Exception as e:  # noqa
            failures.append(dict(rec0, facet='crash', detail={'observed': type(e).__name__, 'message': str(e)[:200]}))
        if primary and len(samples) < 3:
            samples.append({'history': render(hist), 'objects': [c['str'] for c in created]})
    return {'stats': dict(stats), 'failures': failures[:100], 'samples': samples}


def _t(x):
    return tuple(_t(e) for e in x) if isinstance(x, list) else x


def replay_record(rec):
    hist = _t(rec['term_raw'])
    raw_state = None
    st = {'hist': hist, 'heap': [{'ref': r} for r in rec['refs']]}
    # re-run through the same code path
    import json
    class Fake:  # minimal stand-in for a dumped state
        pass
    global parse_state
    orig = parse_state
    parse_state = lambda raw: st
    try:
        out = judge(['x'], {'min_len': 0, 'hashseed': rec.get('hashseed', 0)})
    finally:
        parse_state = orig
    still = [f for f in out['failures'] if f['facet'] == rec['facet']]
    for f in out['failures']:
        print('failure:', f['facet'], f['detail'])
    print('history:', rec['term'])
    print('REPRODUCED' if still else 'not reproduced on the current tree')
    return 1 if still else 0
