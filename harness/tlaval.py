# minimal TLA+ value parser for TLC -dump output (prototype)
import re
class P:
    def __init__(s,t): s.t=t; s.i=0
    def ws(s):
        while s.i<len(s.t) and s.t[s.i] in ' \n\t\r': s.i+=1
    def val(s):
        s.ws(); t=s.t; c=t[s.i]
        if c=='"':
            j=s.i+1; out=[]
            while t[j]!='"':
                if t[j]=='\\': out.append(t[j+1]); j+=2
                else: out.append(t[j]); j+=1
            s.i=j+1; return ''.join(out)
        if t.startswith('<<',s.i):
            s.i+=2; out=[]
            while True:
                s.ws()
                if t.startswith('>>',s.i): s.i+=2; return tuple(out)
                out.append(s.val()); s.ws()
                if t[s.i]==',': s.i+=1
        if c=='[':
            s.i+=1; d={}
            while True:
                s.ws()
                if t[s.i]==']': s.i+=1; return d
                m=re.compile(r'(\w+)\s*\|->').match(t,s.i); s.i=m.end()
                d[m.group(1)]=s.val(); s.ws()
                if t[s.i]==',': s.i+=1
        if c=='{':
            s.i+=1; out=[]
            while True:
                s.ws()
                if t[s.i]=='}': s.i+=1; return out
                out.append(s.val()); s.ws()
                if t[s.i]==',': s.i+=1
        if c=='(':
            s.i+=1; d={}
            while True:
                s.ws(); k=s.val(); s.ws(); assert t.startswith(':>',s.i); s.i+=2; v=s.val(); d[k]=v; s.ws()
                if t.startswith('@@',s.i): s.i+=2; continue
                assert t[s.i]==')'; s.i+=1; return d
        m=re.compile(r'-?\d+').match(t,s.i)
        if m: s.i=m.end(); return int(m.group())
        m=re.compile(r'TRUE|FALSE').match(t,s.i)
        if m: s.i=m.end(); return m.group()=='TRUE'
        m=re.compile(r'\w+').match(t,s.i)
        s.i=m.end(); return ('mv',m.group())
def states(f):
    buf=[]
    for line in f:
        if line.startswith('State '):
            if buf: yield parse_state(''.join(buf))
            buf=[]
        else: buf.append(line)
    if buf and ''.join(buf).strip(): yield parse_state(''.join(buf))
def parse_state(txt):
    d={}
    if not txt.lstrip().startswith('/\\'):
        txt='/\\ '+txt.lstrip()      # a specification with a single variable is dumped without the bullet
    p=P(txt)
    while True:
        p.ws()
        if p.i>=len(txt): return d
        assert txt.startswith('/\\',p.i), txt[p.i:p.i+40]
        p.i+=2; p.ws()
        m=re.compile(r'(\w+)\s*=').match(txt,p.i); p.i=m.end()
        d[m.group(1)]=p.val()
