"""C15-C19: judge states of PregexMeta (parameters x subject text x intended observation)."""
import collections
import re

from .tlaval import parse_state
from . import build as B

from pregex.core.pre import Pregex
import pregex.meta.essentials as me

_objs = {}


def S(cps):
    return ''.join(map(chr, cps))


def num(ds):
    return int(S(ds))


def none_if(v):
    return None if v == -1 else v


def noise(par):
    """Constructions made BEFORE the one under test, so that state kept between constructor calls (class attributes,
    default arguments, caches) shows up: the sibling with is_extensible flipped, and a rejected call of the same family."""
    k = par['kind']
    calls = []
    if k in ('IPv4', 'IPv6', 'IPctx'):
        calls = [lambda: me.IPv6(), lambda: me.IPv4(), lambda: me.IPv6(is_extensible=True)] if not par.get('ext') else [lambda: me.IPv6(), lambda: me.IPv4()]
    elif k == 'Date':
        calls = [lambda: me.Date(['dd/mm/yyyy', 'dd.mm.yyyy']), lambda: me.Date(['yy-m-d', 'm/d/yyyy', 5])]
    elif 'Integer' in k:
        calls = [lambda: make(dict(par, ext=not par['ext'])), lambda: me.Integer(5, 1), lambda: me.Integer(-1, 1)]
    elif 'Decimal' in k:
        calls = [lambda: make(dict(par, ext=not par['ext'])), lambda: me.Decimal(0, 9, 0, 1), lambda: me.Decimal(0, 9, 3, 2)]
    elif k == 'Numeral':
        calls = [lambda: make(dict(par, ext=not par['ext'])), lambda: me.Numeral(17), lambda: me.Numeral(10, 3, 2)]
    elif k == 'Word':
        calls = [lambda: make(dict(par, ext=not par['ext'])), lambda: me.Word(0), lambda: me.Word(3, 2)]
    elif k in ('WordContains', 'WordStartsWith', 'WordEndsWith'):
        calls = [lambda: make(dict(par, ext=not par['ext'])), lambda: getattr(me, k)(['zz', 5])]
    for c in calls:
        try:
            c()
        except Exception:  # noqa: rejected on purpose (or broken: then the construction under test shows it)
            pass


def make(par):
    k = par['kind']
    ext = par['ext']
    if k == 'Integer':
        return me.Integer(num(par['lo']), num(par['hi']), include_sign=par['sign'], is_extensible=ext)
    if k in ('PositiveInteger', 'NegativeInteger', 'UnsignedInteger'):
        return getattr(me, k)(num(par['lo']), num(par['hi']), is_extensible=ext)
    if k == 'Decimal':
        return me.Decimal(num(par['lo']), num(par['hi']), par['dmin'], none_if(par['dmax']), include_sign=par['sign'], is_extensible=ext)
    if k in ('PositiveDecimal', 'NegativeDecimal', 'UnsignedDecimal'):
        return getattr(me, k)(num(par['lo']), num(par['hi']), par['dmin'], none_if(par['dmax']), is_extensible=ext)
    if k == 'Numeral':
        return me.Numeral(par['base'], par['nmin'], none_if(par['nmax']), is_extensible=ext)
    if k == 'Word':
        return me.Word(par['nmin'], none_if(par['nmax']), is_global=par['glob'], is_extensible=ext)
    if k in ('WordContains', 'WordStartsWith', 'WordEndsWith'):
        aff = sorted(S(a) for a in par['affixes'])
        return getattr(me, k)(aff if len(aff) != 1 or par['aslist'] else aff[0], is_global=par['glob'], is_extensible=ext)
    if k in ('Text', 'Whitespace', 'NonWhitespace'):
        return getattr(me, k)(is_optional=ext)
    if k == 'IPv4':
        return me.IPv4(is_extensible=ext)
    if k == 'IPv6':
        return me.IPv6(is_extensible=ext)
    if k == 'IPctx':
        return me.IPv6() if par['v6'] else me.IPv4()
    if k == 'DecCtx':
        return make(par['base'])
    if k == 'Date':
        fm = [fmt_str(f) for f in par['fmts']]
        return me.Date(fm if len(fm) > 1 else fm[0], is_extensible=ext)
    raise ValueError(k)


def fmt_str(f):
    return chr(f[3]).join(f[:3])


def key_of(par):
    if par['kind'] == 'DecCtx':
        return key_of(par['base'])
    return repr(sorted((k, v if not isinstance(v, list) else tuple(map(repr, v))) for k, v in par.items() if k not in ('alpha', 'cand', 'seeds')))


def describe(par):
    k = par['kind']
    if k in ('Integer', 'PositiveInteger', 'NegativeInteger', 'UnsignedInteger'):
        return '%s(%s, %s%s%s)' % (k, S(par['lo']), S(par['hi']), ', include_sign=True' if par.get('sign') else '', ', is_extensible=True' if par['ext'] else '')
    if 'Decimal' in k:
        return '%s(%s, %s, %s, %s%s%s)' % (k, S(par['lo']), S(par['hi']), par['dmin'], none_if(par['dmax']), ', include_sign=True' if par.get('sign') else '', ', is_extensible=True' if par['ext'] else '')
    if k == 'Numeral':
        return 'Numeral(%s, %s, %s%s)' % (par['base'], par['nmin'], none_if(par['nmax']), ', is_extensible=True' if par['ext'] else '')
    if k == 'Word':
        return 'Word(%s, %s, is_global=%s%s)' % (par['nmin'], none_if(par['nmax']), par['glob'], ', is_extensible=True' if par['ext'] else '')
    if k.startswith('Word'):
        return '%s(%r, is_global=%s%s)' % (k, sorted(S(a) for a in par['affixes']), par['glob'], ', is_extensible=True' if par['ext'] else '')
    if k == 'IPctx':
        return 'IPv6()' if par['v6'] else 'IPv4()'
    if k == 'DecCtx':
        return describe(par['base'])
    if k == 'Date':
        return 'Date(%r%s)' % ([fmt_str(f) for f in par['fmts']], ', is_extensible=True' if par['ext'] else '')
    if k in ('Text', 'Whitespace', 'NonWhitespace'):
        return '%s(is_optional=%s)' % (k, par['ext'])
    return '%s(%s)' % (k, 'is_extensible=True' if par['ext'] else '')


PREFIXES = ('x', ' ', '#')


def observe_meta(par, text, res, prop):
    fails = []
    k = key_of(par)
    obj = _objs.get(k)
    if obj is None:
        noise(par)
        try:
            obj = make(par)
        except Exception as e:  # noqa
            obj = e
        if len(_objs) > 4000:
            _objs.clear()
        _objs[k] = obj
    if isinstance(obj, Exception):
        facet = 'crash' if not isinstance(obj, B.PREGEX_EXCEPTIONS) else 'exc'
        return [(facet, {'observed': type(obj).__name__, 'message': str(obj)[:200]})]
    try:
        needs_prefix = par['ext'] and ('Integer' in par['kind'] or 'Decimal' in par['kind'])
        if res['exact'] != 'unspecified':
            want = res['exact'] == 'yes'
            if needs_prefix:
                for pf in PREFIXES:
                    got = (Pregex(pf) + obj).is_exact_match(pf + text)
                    if got != want:
                        fails.append(('exact', {'text': pf + text, 'prefix': pf, 'observed': got, 'expected': want, 'emitted': str(obj)[:300]}))
                        break
                else:
                    # extensible on the right as well: a word follows the numeral directly
                    got = (Pregex('x') + obj + 'kg').is_exact_match('x' + text + 'kg')
                    if got != want:
                        fails.append(('exact', {'text': 'x' + text + 'kg', 'prefix': 'x', 'suffix': 'kg', 'observed': got, 'expected': want, 'emitted': str(obj)[:300]}))
            else:
                got = obj.is_exact_match(text)
                if got != want:
                    fails.append(('exact', {'text': text, 'observed': got, 'expected': want, 'emitted': str(obj)[:300]}))
                elif par['ext'] and par['kind'] in ('IPv4', 'IPv6'):
                    # the extensible forms carry no assertion at all: glued to a digit they still match
                    got = (Pregex('7') + obj + '7').is_exact_match('7' + text + '7')
                    if got != want:
                        fails.append(('exact', {'text': '7' + text + '7', 'prefix': '7', 'suffix': '7', 'observed': got, 'expected': want, 'emitted': str(obj)[:300]}))
        if res['mspec']:
            got = [(s, e) for _, s, e in obj.get_matches_and_pos(text)]
            exp = [tuple(x) for x in res['matches']]
            if got != exp:
                fails.append(('matches', {'text': text, 'observed': got, 'expected': exp, 'emitted': str(obj)[:300]}))
    except re.error as e:
        fails.append(('compile', {'error': str(e), 'emitted': str(obj)[:300]}))
    except Exception as e:  # noqa
        fails.append(('crash', {'observed': type(e).__name__, 'message': str(e)[:200]}))
    return fails


def judge(payload, params):
    prop = params['prop']
    facets = set(params['facets'])
    stats = collections.Counter()
    failures, samples = [], []
    for raw in payload:
        st = parse_state(raw)
        par, res = st['par'], st['res']
        text = S(st['txt'])
        stats['states'] += 1
        stats['cases'] += 1
        if res['exact'] == 'yes' or res['matches']:
            stats['nontrivial'] += 1
        fails = observe_meta(par, text, res, prop)
        for facet, detail in fails:
            stats['facet:' + facet] += 1
            if facet in facets:
                failures.append({'property': prop, 'kind': 'meta', 'replay_module': 'judge_meta', 'facet': facet,
                                 'term': describe(par), 'ctor': par['kind'], 'text': text, 'spelling': 'class',
                                 'detail': detail, 'par': {k: v for k, v in par.items() if k != 'alpha'},
                                 'expected': {'exact': res['exact'], 'mspec': res['mspec'], 'matches': [list(x) for x in res['matches']]}})
        if len(samples) < 3 and (res['exact'] == 'yes' or res['matches']):
            samples.append({'ctor': describe(par), 'text': text, 'expected_exact': res['exact'],
                            'expected_matches': [list(x) for x in res['matches']] if res['mspec'] else 'unspecified'})
    return {'stats': dict(stats), 'failures': failures[:300], 'samples': samples}


def _t(x):
    return [_t(e) for e in x] if isinstance(x, list) else x


def replay_record(rec):
    par = rec['par']
    par.setdefault('alpha', [])
    exp = rec['expected']
    res = {'exact': exp['exact'], 'mspec': exp['mspec'], 'matches': [tuple(x) for x in exp['matches']]}
    fails = observe_meta(par, rec['text'], res, rec['property'])
    print('constructor:', rec['term'], ' text:', repr(rec['text']))
    print('expected   :', exp)
    for f in fails:
        print('failure    :', f)
    still = [f for f in fails if f[0] == rec['facet']]
    print('REPRODUCED' if still else 'not reproduced on the current tree')
    return 1 if still else 0
