import sys, time, collections, json
from . import checks_class as KC
from .runner import run_generated
def main(argv):
    t=time.time()
    res=run_generated(KC.random_class_configs('quick', int(argv[0]), n_quick=int(argv[1])),'harness.judge_class.judge',{'prop':'C07','facets':['crash','exc','accepted','compile','denotation','export']},seeds=(0,1),mode='all',batch=200)
    print(res.states, dict(res.agg.stats), round(time.time()-t,1))
    g=collections.defaultdict(list)
    for f in res.agg.failures: g[(f['facet'], str(f['detail'].get('observed',''))[:40])].append(f)
    for k,v in sorted(g.items(), key=lambda kv:-len(kv[1])):
        print(len(v),k)
        for f in v[:5]: print('    ',f['term'][:200],json.dumps(f['detail'])[:300])
    for mv in res.model_violations[:1]: print(mv[0],mv[1],mv[2][-2500:])
if __name__=='__main__': main(sys.argv[1:])
