"""C03: every pattern-building call yields a compilable, exportable pattern or a documented exception.

Three enumerations share this check: the builder state machine with the documented invalid
arguments (PregexSpine), the class constructors and algebra including the arguments whose outcome
the documentation leaves open (PregexClass), and the meta constructors over boundary parameters
(PregexMeta).  Only the C03 acceptance relation is judged: a non-library exception (crash), an
emitted pattern that re rejects (compile), an exported text that is not printable or not
equivalent (export)."""
import time

from . import checks_class as KC
from . import checks_compose as CC
from .runner import run_generated, report, tier_and_seed, GenResult

FACETS = ['crash', 'compile', 'export']


def class_configs(tier, seed):
    args = KC.ctor_args(tier, seed) + [('bad', 'emptystr'), ('bad', 'pregex')]
    if tier == 'quick':
        args = args[:8] + args[-9:]
    return [KC.class_config('constructors-incl-unspecified-args', args, 2 if tier == 'quick' else 3, csel={'ctor', 'named', 'tokens'}),
            KC.class_config('algebra-depth1', cwin=KC.ADJ_WINDOWS[1][:5], csel={'alg', 'algnamed', 'operands'}, maxd=1)] + \
           ([KC.class_config('algebra-depth2', cwin=(44, 45, 46, 92), csel={'alg', 'operands'}, maxd=2)] if tier != 'quick' else [])


def check_C03(tier_arg=None):
    tier, seed = tier_and_seed(tier_arg)
    t0 = time.time()
    seeds = sorted({0, 1, seed % (2 ** 32)}) if tier == 'quick' else list(range(8))
    res = GenResult()
    run_generated(CC.total_configs(tier, seed) + CC.random_term_configs(tier, seed) + CC.test_suite_term_configs(), 'harness.judge_compose.judge', {'prop': 'C03', 'facets': FACETS},
                  seeds=seeds, mode='rr', result=res)
    n_builder = res.agg.stats.get('cases', 0)
    run_generated(class_configs(tier, seed), 'harness.judge_class.judge', {'prop': 'C03', 'facets': FACETS},
                  seeds=seeds, mode='all', batch=200, result=res)
    CC.heap_stage('C03', tier, seeds, res, n_quick=5)      # the same object captured / grouped / refused several times
    try:
        from . import checks_meta as MM
        MM.run_ctor_space(tier, seed, seeds, res)
    except ImportError:
        pass
    st = res.agg.stats
    cov = {'states': res.states, 'transitions': res.transitions, 'traces_validated_against_impl': st.get('cases', 0),
           'evaluations': st.get('cases', 0), 'distinct_nontrivial': st.get('nontrivial', 0),
           'rule': 'every state of the builder machine over the documented argument space (valid values and every documented way of '
                   'being invalid: wrong type, bool for int, negative, inverted, bad name, too few arguments), every class constructor / '
                   'algebra state and every meta constructor state is replayed; only crash / compile / export outcomes are judged; '
                   'builder states are distributed over the hash seeds, class and meta states run under every seed; '
                   'non-trivial = a state produced by at least one call',
           'samples': res.agg.samples[:8], 'tlc_runs': res.runs, 'hash_seeds': seeds, 'builder_cases': n_builder,
           'facet_counts': {k[6:]: v for k, v in st.items() if k.startswith('facet:')}, 'facets_judged': FACETS,
           'exhaustive': True}
    return report('C03', tier, seed, res.agg.failures, cov, time.time() - t0, CC.ASSUME + KC.ASSUME[:1], res.model_violations)


CHECKS = {'C03': check_C03}
