"""The projection function abs(obj, U): what a user of a pattern can observe.

For a text universe U the table maps every text to (fullmatch?, [(span, group spans)...])
as produced by CPython's `re` under MULTILINE|DOTALL, plus the number of groups.
The same engine executes the library's emitted pattern and the specification's
reference text, so engine quirks cancel (DESIGN section 4, rule 2).
"""
import itertools
import re

FLAGS = re.M | re.S
_cache = {}
_ucache = {}


def universe(chars, extra=(), maxlen=3, core=(), core_len=5):
    """All texts over `chars`+`extra` up to maxlen, plus texts over `core` up to core_len."""
    key = (tuple(sorted(chars)), tuple(extra), maxlen, tuple(core), core_len)
    u = _ucache.get(key)
    if u is None:
        alpha = sorted(set(chars) | set(extra))
        seen = []
        s = set()
        for n in range(0, maxlen + 1):
            for p in itertools.product(alpha, repeat=n):
                t = ''.join(p)
                if t not in s:
                    s.add(t)
                    seen.append(t)
        for n in range(maxlen + 1, core_len + 1):
            for p in itertools.product(sorted(core), repeat=n):
                t = ''.join(p)
                if t not in s:
                    s.add(t)
                    seen.append(t)
        u = (key, tuple(seen))
        if len(_ucache) > 64:
            _ucache.clear()
        _ucache[key] = u
    return u


def table(pattern, uni):
    """abs(pattern, U).  Raises re.error if the pattern does not compile."""
    ukey, texts = uni
    k = (pattern, ukey)
    r = _cache.get(k)
    if r is None:
        rc = re.compile(pattern, FLAGS)
        ng = rc.groups
        rows = []
        for t in texts:
            ms = tuple((m.span(), m.regs[1:]) for m in rc.finditer(t))
            rows.append((rc.fullmatch(t) is not None, ms))
        r = (ng, tuple(rows))
        if len(_cache) > 20000:
            _cache.clear()
        _cache[k] = r
    return r


def first_diff(a, b, uni):
    """First text on which two tables differ (for replay files)."""
    texts = uni[1]
    if a[0] != b[0]:
        return {'groups_emitted': a[0], 'groups_reference': b[0]}
    for t, ra, rb in zip(texts, a[1], b[1]):
        if ra != rb:
            return {'text': t, 'emitted': ra, 'reference': rb}
    return None


def group_names(pattern):
    rc = re.compile(pattern, FLAGS)
    names = [''] * rc.groups
    for n, i in rc.groupindex.items():
        names[i - 1] = n
    return names
