"""Development aid: run an enumeration with every facet judged and group the failures."""
import collections, json, sys, time
from .runner import run_generated
from . import checks_compose as CC
from . import universe as UV

def main(argv):
    tier = argv[0] if argv else 'quick'
    seed = int(argv[1]) if len(argv) > 1 else 0
    facets = ['crash', 'exc', 'accepted', 'compile', 'behaviour', 'caps', 'export', 'emptytext']
    res = run_generated(getattr(CC, (argv[2] if len(argv) > 2 else "compose") + "_configs")(tier, seed), 'harness.judge_compose.judge', {'prop': 'CENSUS', 'facets': facets})
    groups = collections.defaultdict(list)
    for f in res.agg.failures:
        d = f['detail']
        key = (f['facet'], d.get('observed') if isinstance(d.get('observed'), str) else '', f['term_raw'][0], tuple(f['expected']['ex']))
        groups[key].append(f)
    print(res.states, 'states', dict(res.agg.stats))
    for k, v in sorted(groups.items(), key=lambda kv: -len(kv[1])):
        print(len(v), k)
        for f in v[:4]:
            print('     ', f['term'], '[%s]' % f['spelling'], json.dumps(f['detail'], ensure_ascii=True)[:300])

if __name__ == '__main__':
    main(sys.argv[1:])
