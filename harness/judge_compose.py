"""Judge states of the builder state machine (PregexSpine and friends) against the library.

For every state (= one surface term with its intended outcome) and every spelling of its
top operator, the term is executed through the public API and the observable outcome is
compared with the specification's expectation, facet by facet:

  crash      a non-library exception (RecursionError, TypeError, re.error, ...)
  exc        a library exception the specification does not allow at this point
  accepted   a pattern was returned where the specification requires an exception
  compile    the emitted pattern is rejected by `re`
  behaviour  spans / group spans / fullmatch verdicts differ from the reference text
  caps       number, order or names of capturing groups differ from CapList
  export     get_pattern() is not printable or not equivalent to str()
  emptytext  the value is the empty pattern but the emitted text is not ''

Which facets are violations of which property is decided by the caller (params['facets']).
"""
import collections
import re

from .tlaval import parse_state
from . import build as B
from . import observe as O
from . import members as MB

DECOYS = ('k', '5', ' ', '\n')
_SHORTHAND_EXTRA = re.compile(r'[\d\s]')


def uni_for(term, ci=False, deep=False):
    cps = B.chars_of(term)
    # code points that only the Unicode-aware shorthands \d and \s add beyond their ASCII cores are left unspecified by the
    # properties: they never occur in subject texts (the reference spells [0-9] where the library may emit \d)
    chars = {chr(c) for c in cps if c < 128 or _SHORTHAND_EXTRA.fullmatch(chr(c)) is None}
    if ci:
        chars |= {c.swapcase() for c in chars if c.isalpha() and len(c.swapcase()) == 1}
    core = chars if chars else {'k'}
    if deep:
        core_len = 8 if len(core) <= 2 else 6 if len(core) == 3 else 4
    else:
        core_len = 5 if len(core) <= 3 else 4 if len(core) <= 5 else 3
    return O.universe(chars, DECOYS, 3 if len(chars) <= 6 else 2, core, core_len)


def nontrivial(prop, st):
    res = st['res']
    if prop == 'C02':
        return res['ok'] and res['nops'] >= 2 and res['prec']
    if prop == 'C05':
        return 'emptyarg' in res['tags'] or (res['ok'] and res['ref'] == '' and st['d'] > 0)
    if prop == 'C01':
        return 'strarg' in res['tags']
    if prop == 'C03':
        return st['d'] > 0
    if prop == 'C08':
        return res['ok'] and len(res['caps']) > 0 and res['nops'] >= 2
    if prop == 'C09':
        return st['cur']['t'][0] in B.QUANT or st['cur']['t'][0] == 'Mul'
    if prop == 'C10':
        return st['cur']['t'][0] == 'Look' and st['cur']['t'][1] != 'ahead'
    if prop == 'C04':
        return st['cur']['t'][0] in B.QUANT or st['cur']['t'][0] == 'Mul'
    return st['d'] > 0


def guarded(term, sp, res, deep, limit=20):
    """observe_case in a forked child with an alarm: programs outside the bounds of the exhaustive instances (large
    repetition counts) can make CPython's re backtrack for hours on a five-character text; such a case gets no verdict."""
    import os
    import pickle
    import signal
    r, w = os.pipe()
    pid = os.fork()
    if pid == 0:
        try:
            os.close(r)
            signal.alarm(limit)
            out = observe_case(term, sp, res, deep, True)
            with os.fdopen(w, 'wb') as fh:
                pickle.dump(out, fh)
        finally:
            os._exit(0)
    os.close(w)
    with os.fdopen(r, 'rb') as fh:
        data = fh.read()
    os.waitpid(pid, 0)
    if not data:
        return [], {'outcome': 'skipped-explosive'}
    return pickle.loads(data)


def observe_case(term, sp, res, deep=False, members=False):
    """Execute one (term, spelling); return (facet failures list, info)."""
    fails = []
    info = {}
    try:
        p = B.build(term, sp)
    except B.SkipSpelling:
        info['outcome'] = 'skipped'
        return fails, info
    except B.PREGEX_EXCEPTIONS as e:
        nm = type(e).__name__
        info['outcome'] = nm
        if nm not in res['ex']:
            fails.append(('exc', {'observed': nm, 'expected_ok': res['ok'], 'expected_ex': sorted(res['ex'])}))
        return fails, info
    except RecursionError:
        info['outcome'] = 'RecursionError'
        fails.append(('crash', {'observed': 'RecursionError'}))
        return fails, info
    except Exception as e:  # noqa
        info['outcome'] = type(e).__name__
        fails.append(('crash', {'observed': type(e).__name__, 'message': str(e)[:200]}))
        return fails, info
    p = B.to_p(p)
    emitted = str(p)
    info['outcome'] = 'ok'
    info['emitted'] = emitted
    if res.get('ty'):
        info['drift_type'] = (p._get_type().name != res['ty'])
        em = res.get('emit')
        if em is not None and tuple(em) != (-1,):
            info['drift_text'] = (''.join(map(chr, em)) != emitted)
        inf = res.get('inf')
        if inf and inf.get('ty'):
            # ImplInfer: the transcribed __infer_type on Emit(v) against what the code inferred for its own text
            info['drift_infer'] = (p._get_type().name != inf['ty'] or p._is_repeatable() != inf['rep'])
            if info['drift_infer']:
                info['drift_infer_detail'] = {'emitted': emitted, 'code': [p._get_type().name, p._is_repeatable()],
                                              'model': [inf['ty'], inf['rep']], 'text_equal': info.get('drift_text') is False}
    if not res['ok']:
        fails.append(('accepted', {'observed': 'ok', 'emitted': emitted, 'expected_ex': sorted(res['ex'])}))
        # whatever the specification expected: a pattern that was handed out must be a valid regular expression (C03)
        try:
            re.compile(emitted, O.FLAGS)
        except re.error as e:
            fails.append(('compile', {'emitted': emitted, 'error': str(e), 'expected_ex': sorted(res['ex'])}))
        except RecursionError:
            pass
        return fails, info
    if res['ref'] == '' and emitted != '':
        fails.append(('emptytext', {'emitted': emitted}))
    if not res['refsdef']:
        return fails, info
    if members and MB.explosive(res['ref']):
        info['outcome'] = 'skipped-explosive'
        try:
            re.compile(res['ref'], O.FLAGS)
        except (re.error, RecursionError):
            info['outcome'] = 'ok-ref-uncompilable'
            return fails, info
        try:
            re.compile(emitted, O.FLAGS)
        except re.error as e:
            fails.append(('compile', {'emitted': emitted, 'error': str(e)}))
        except RecursionError:
            pass
        return fails, info
    ci = '(?i:' in res['ref']
    uni = uni_for(term, ci, deep)
    if members:
        extra = MB.texts_for(res['ref'])
        if extra:
            uni = ((uni[0], 'members', extra), uni[1] + tuple(t for t in extra if t not in set(uni[1])))
    try:
        tr = O.table(res['ref'], uni)
    except re.error:
        # the reference text itself is not a valid regex (a back-reference placed before or
        # inside its own group): no verdict on behaviour for this term
        info['outcome'] = 'ok-ref-uncompilable'
        return fails, info
    try:
        te = O.table(emitted, uni)
    except re.error as e:
        fails.append(('compile', {'emitted': emitted, 'error': str(e)}))
        return fails, info
    except RecursionError:
        fails.append(('compile', {'emitted': emitted, 'error': 'RecursionError in re'}))
        return fails, info
    if te != tr:
        fails.append(('behaviour', dict(O.first_diff(te, tr, uni) or {}, emitted=emitted, reference=res['ref'])))
    if res.get('semtab'):
        # oracle calibration: the specification's own matcher (evaluated by TLC) against re on the reference text
        rc = re.compile(res['ref'], O.FLAGS)
        for txt, find, full in res['semtab']:
            t = ''.join(map(chr, txt))
            exp = tuple((m.start(), m.end(), tuple(m.span(g) for g in range(1, rc.groups + 1))) for m in rc.finditer(t))
            got = tuple((a, b, tuple(tuple(x) for x in caps)) for a, b, caps in find)
            if exp != got or (rc.fullmatch(t) is not None) != full:
                fails.append(('oracle', {'reference': res['ref'], 'text': t, 'spec_find': got, 'spec_full': full,
                                         're_find': exp, 're_full': rc.fullmatch(t) is not None}))
                break
        info['calibrated'] = True
    names = O.group_names(emitted)
    if tuple(names) != tuple(res['caps']):
        fails.append(('caps', {'emitted': emitted, 'observed': names, 'expected': list(res['caps'])}))
    try:
        gp = p.get_pattern()
        okp = gp.isprintable()
        if okp:
            tg = O.table(gp, uni)
            okp = (tg == te)
        if not okp:
            fails.append(('export', {'emitted': emitted, 'exported': gp}))
    except Exception as e:  # noqa
        fails.append(('export', {'emitted': emitted, 'error': '%s: %s' % (type(e).__name__, str(e)[:100])}))
    return fails, info


def _listify(x):
    return [_listify(e) for e in x] if isinstance(x, tuple) else x


def judge(payload, params):
    prop = params['prop']
    facets = set(params['facets'])
    stats = collections.Counter()
    failures = []
    samples = []
    primary = params.get('hashseed', 0) == params.get('primary_seed', 0)
    for raw in payload:
        st = parse_state(raw)
        term = st['cur']['t']
        res = st['res']
        res['tags'] = set(res['tags'])
        res['ex'] = set(res['ex'])
        if 'unspecified' in res['tags']:
            stats['unspecified-terms'] += 1
            continue
        if primary:
            stats['states'] += 1
            if nontrivial(prop, st):
                stats['nontrivial'] += 1
        rec = params.get('recorded')
        if rec is not None:
            # trace validation: the outcome recorded from the real run must be one the specification allows
            import json as _json
            key = _json.dumps(_listify(term))
            if key in rec:
                stats['trace-events'] += 1
                e = rec[key]
                if (e is None and not res['ok']) or (e is not None and e not in res['ex']):
                    stats['facet:trace-outcome'] += 1
                    failures.append({'property': prop, 'facet': 'trace-outcome', 'term': B.render(term), 'term_raw': term, 'spelling': 'recorded',
                                     'hashseed': 0, 'detail': {'recorded': e, 'expected_ok': res['ok'], 'expected_ex': sorted(res['ex'])},
                                     'expected': {'ok': res['ok'], 'ex': sorted(res['ex']), 'ref': res['ref'], 'caps': list(res['caps'])}})
        for sp in B.spellings(term):
            stats['cases'] += 1
            if params.get('members'):
                fails, info = guarded(term, sp, res, params.get('deep', False))
            else:
                fails, info = observe_case(term, sp, res, params.get('deep', False), False)
            only = params.get('only_ex')
            if only:
                fails = [(f, d) for f, d in fails
                         if (f == 'crash' and only in res['ex'])
                         or (f in ('exc', 'accepted') and (d.get('observed') == only or only in d.get('expected_ex', ())))
                         or f not in ('exc', 'accepted', 'crash')]
            oc = info.get('outcome')
            stats['outcome:' + (oc if oc in ('ok', 'skipped', 'ok-ref-uncompilable', 'skipped-explosive') else 'raise')] += 1
            if info.get('calibrated'):
                stats['calibrated'] += 1
            if 'drift_type' in info:
                stats['drift:type-compared'] += 1
                stats['drift:type-differs'] += int(info['drift_type'])
            if 'drift_infer' in info:
                stats['drift:infer-compared'] += 1
                stats['drift:infer-differs'] += int(info['drift_infer'])
                if info['drift_infer'] and info['drift_infer_detail']['text_equal']:
                    stats['drift:infer-differs-on-equal-text'] += 1
                    if len(samples) < 6:
                        samples.append(dict(info['drift_infer_detail'], drift='infer', term=B.render(term)))
            if 'drift_text' in info:
                stats['drift:text-compared'] += 1
                stats['drift:text-differs'] += int(info['drift_text'])
                if info['drift_text'] and len(samples) < 6:
                    samples.append({'drift': True, 'term': B.render(term), 'emitted': info.get('emitted'),
                                    'layer_I_text': ''.join(map(chr, res['emit']))})
            for facet, detail in fails:
                stats['facet:' + facet] += 1
                if facet in facets or facet == 'oracle':
                    failures.append({'property': prop, 'facet': facet, 'term': B.render(term), 'term_raw': term,
                                     'spelling': sp, 'hashseed': params.get('hashseed', 0), 'detail': detail,
                                     'expected': {'ok': res['ok'], 'ex': sorted(res['ex']), 'ref': res['ref'],
                                                  'caps': list(res['caps'])}})
            if primary and len(samples) < 3 and st['d'] > 0 and info.get('outcome') == 'ok' and sp == 'class':
                samples.append({'term': B.render(term), 'emitted': info.get('emitted'), 'reference': res['ref']})
    return {'stats': dict(stats), 'failures': failures[:200], 'samples': samples}
