"""External tracer: records the builder calls that a Python program (e.g. the repository's own test suite)
makes on pregex, as surface terms in the encoding of spec/PregexSpine.tla, without touching /repo.

Enabled only when PREGEX_VERIF_TRACE=1 (MANIFEST hooks.guard).  Used as a pytest plugin:

    PREGEX_VERIF_TRACE=1 PREGEX_VERIF_TRACE_OUT=<file> PYTHONPATH=/verif:<repo>/src pytest -p harness.tracer ...

In a sequential library the linearization point of a call is its return: every public constructor, chained method
and operator dunder is wrapped; a depth counter drops the calls the library makes on itself; the event is recorded
when the outermost call returns (or raises - the error path is logged too).  Every object the program obtains is
mapped to the term that built it; an object that was built from a hand-written regex (escape=False), from class
algebra or by a constructor the term language does not cover is opaque, and so is everything built from it.
"""
import atexit
import json
import os

ENABLED = os.environ.get('PREGEX_VERIF_TRACE') == '1'
OUT = os.environ.get('PREGEX_VERIF_TRACE_OUT')

_terms = {}        # id(obj) -> term (or OPAQUE)
_keep = []         # strong references: ids must not be reused
_depth = [0]
_events = []       # (term, exception name or None)
OPAQUE = ('opaque',)


def _cps(s):
    return tuple(ord(c) for c in s)


def _arg(a):
    from pregex.core.pre import Pregex
    if isinstance(a, str):
        return ('str', _cps(a))
    if isinstance(a, Pregex):
        return _terms.get(id(a), OPAQUE)
    return ('badarg', 'none' if a is None else 'int' if isinstance(a, int) and not isinstance(a, bool) else 'list')


def _bound(n):
    if isinstance(n, bool):
        return ('bool',) if n else ('boolf',)
    if isinstance(n, int):
        return ('i', n)
    if n is None:
        return ('none',)
    if isinstance(n, float):
        return ('float',)
    return ('str',)


def _name(n):
    if n is None:
        return ('none',)
    if isinstance(n, str):
        import re
        return ('name', n) if re.fullmatch(r'[A-Za-z_][A-Za-z_0-9]*', n) and n.isascii() else ('badname',)
    return ('badtype',)


def _opaque_in(t):
    if t == OPAQUE:
        return True
    return isinstance(t, tuple) and any(_opaque_in(x) for x in t if isinstance(x, tuple))


def _record(obj, term, exc=None):
    if obj is not None:
        _terms[id(obj)] = term if not _opaque_in(term) else OPAQUE
        _keep.append(obj)
    if not _opaque_in(term):
        _events.append((term, exc))


def _wrap_init(cls, make_term):
    orig = cls.__dict__.get('__init__')
    if orig is None:
        return

    def __init__(self, *a, **kw):
        _depth[0] += 1
        try:
            orig(self, *a, **kw)
        except Exception as e:
            _depth[0] -= 1
            if _depth[0] == 0:
                try:
                    _record(None, make_term(a, kw), type(e).__name__)
                except Exception:
                    pass
            raise
        _depth[0] -= 1
        if _depth[0] == 0:
            try:
                _record(self, make_term(a, kw))
            except Exception:
                _record(self, OPAQUE)
        elif id(self) not in _terms:
            pass
    cls.__init__ = __init__


def _wrap_method(cls, name, make_term):
    orig = cls.__dict__.get(name)
    if orig is None:
        return

    def method(self, *a, **kw):
        _depth[0] += 1
        try:
            r = orig(self, *a, **kw)
        except Exception as e:
            _depth[0] -= 1
            if _depth[0] == 0:
                try:
                    _record(None, make_term(self, a, kw), type(e).__name__)
                except Exception:
                    pass
            raise
        _depth[0] -= 1
        if _depth[0] == 0 and r is not self:
            try:
                _record(r, make_term(self, a, kw))
            except Exception:
                _record(r, OPAQUE)
        return r
    setattr(cls, name, method)


def install():
    from pregex.core.pre import Pregex
    import pregex.core.classes as cl
    import pregex.core.operators as op
    import pregex.core.quantifiers as qu
    import pregex.core.groups as gr
    import pregex.core.assertions as asr
    import pregex.core.tokens as tk

    def g(a, kw, i, key, default=None):
        return a[i] if len(a) > i else kw.get(key, default)

    # base class
    _wrap_init(Pregex, lambda a, kw: ('Pregex', _cps(g(a, kw, 0, 'pattern', ''))) if g(a, kw, 1, 'escape', True) and isinstance(g(a, kw, 0, 'pattern', ''), str) else OPAQUE)
    # operators
    for name in ('Concat', 'Either'):
        _wrap_init(getattr(op, name), lambda a, kw, name=name: (name, ('args',) + tuple(_arg(x) for x in a)))
    _wrap_init(op.Enclose, lambda a, kw: ('Enclose', ('args',) + tuple(_arg(x) for x in a)) if a else OPAQUE)
    # quantifiers
    for name in ('Optional', 'Indefinite', 'OneOrMore'):
        _wrap_init(getattr(qu, name), lambda a, kw, name=name: (name, _arg(g(a, kw, 0, 'pre')), bool(g(a, kw, 1, 'is_greedy', True))))
    _wrap_init(qu.Exactly, lambda a, kw: ('Exactly', _arg(g(a, kw, 0, 'pre')), _bound(g(a, kw, 1, 'n'))))
    _wrap_init(qu.AtLeast, lambda a, kw: ('AtLeast', _arg(g(a, kw, 0, 'pre')), _bound(g(a, kw, 1, 'n')), bool(g(a, kw, 2, 'is_greedy', True))))
    _wrap_init(qu.AtMost, lambda a, kw: ('AtMost', _arg(g(a, kw, 0, 'pre')), _bound(g(a, kw, 1, 'n')), bool(g(a, kw, 2, 'is_greedy', True))))
    _wrap_init(qu.AtLeastAtMost, lambda a, kw: ('AtLeastAtMost', _arg(g(a, kw, 0, 'pre')), _bound(g(a, kw, 1, 'n')), _bound(g(a, kw, 2, 'm')),
                                                 bool(g(a, kw, 3, 'is_greedy', True))))
    # groups
    _wrap_init(gr.Capture, lambda a, kw: ('Capture', _arg(g(a, kw, 0, 'pre')), _name(g(a, kw, 1, 'name'))))
    _wrap_init(gr.Group, lambda a, kw: ('Group', _arg(g(a, kw, 0, 'pre')), bool(g(a, kw, 1, 'is_case_insensitive', False))))
    _wrap_init(gr.Backreference, lambda a, kw: ('Backreference', ('i', a[0]) if isinstance(a[0], int) and not isinstance(a[0], bool) else
                                                 _name(a[0]) if isinstance(a[0], str) else ('badtype',)))
    _wrap_init(gr.Conditional, lambda a, kw: ('Conditional', _name(a[0])) + tuple(_arg(x) for x in a[1:] if x is not None))
    # assertions
    for name, kd in (('MatchAtStart', 'bos'), ('MatchAtEnd', 'eos'), ('MatchAtLineStart', 'bol'), ('MatchAtLineEnd', 'eol')):
        _wrap_init(getattr(asr, name), lambda a, kw, kd=kd: ('Anchor', kd, _arg(g(a, kw, 0, 'pre'))))
    _wrap_init(asr.WordBoundary, lambda a, kw: ('WordBoundary',))
    _wrap_init(asr.NonWordBoundary, lambda a, kw: ('NonWordBoundary',))
    for name, (d, p) in {'FollowedBy': ('ahead', True), 'NotFollowedBy': ('ahead', False), 'PrecededBy': ('behind', True),
                         'NotPrecededBy': ('behind', False), 'EnclosedBy': ('both', True), 'NotEnclosedBy': ('both', False)}.items():
        _wrap_init(getattr(asr, name), lambda a, kw, d=d, p=p: ('Look', d, p, _arg(a[0]), ('args',) + tuple(_arg(x) for x in a[1:])) if a else OPAQUE)
    # tokens and the classes of the term language
    for name in dir(tk):
        c = getattr(tk, name)
        if isinstance(c, type) and issubclass(c, Pregex) and not name.startswith('_'):
            _wrap_init(c, lambda a, kw, name=name: ('Token', name))

    def chars(a):
        out = []
        for x in a:
            if isinstance(x, str) and len(x) == 1:
                out.append(ord(x))
            else:
                return None
        return tuple(out)
    _wrap_init(cl.AnyFrom, lambda a, kw: ('AnyFrom', chars(a)) if a and chars(a) else OPAQUE)
    _wrap_init(cl.AnyButFrom, lambda a, kw: ('AnyButFrom', chars(a)) if a and chars(a) else OPAQUE)
    _wrap_init(cl.AnyBetween, lambda a, kw: ('AnyBetween', ord(a[0]), ord(a[1])) if len(a) == 2 and chars(a) and a[0] < a[1] else OPAQUE)
    _wrap_init(cl.Any, lambda a, kw: ('Any',))
    _wrap_init(cl.AnyDigit, lambda a, kw: ('AnyDigit',))
    # chained methods and operator dunders
    M = {'concat': lambda s, a, kw: ('Concat', ('args', _arg(s), _arg(a[0]))) if g(a, kw, 1, 'on_right', True) else ('Concat', ('args', _arg(a[0]), _arg(s))),
         'either': lambda s, a, kw: ('Either', ('args', _arg(s), _arg(a[0]))) if g(a, kw, 1, 'on_right', True) else ('Either', ('args', _arg(a[0]), _arg(s))),
         'enclose': lambda s, a, kw: ('Enclose', ('args', _arg(s), _arg(a[0]))),
         'optional': lambda s, a, kw: ('Optional', _arg(s), bool(g(a, kw, 0, 'is_greedy', True))),
         'indefinite': lambda s, a, kw: ('Indefinite', _arg(s), bool(g(a, kw, 0, 'is_greedy', True))),
         'one_or_more': lambda s, a, kw: ('OneOrMore', _arg(s), bool(g(a, kw, 0, 'is_greedy', True))),
         'exactly': lambda s, a, kw: ('Exactly', _arg(s), _bound(g(a, kw, 0, 'n'))),
         'at_least': lambda s, a, kw: ('AtLeast', _arg(s), _bound(g(a, kw, 0, 'n')), bool(g(a, kw, 1, 'is_greedy', True))),
         'at_most': lambda s, a, kw: ('AtMost', _arg(s), _bound(g(a, kw, 0, 'n')), bool(g(a, kw, 1, 'is_greedy', True))),
         'at_least_at_most': lambda s, a, kw: ('AtLeastAtMost', _arg(s), _bound(g(a, kw, 0, 'n')), _bound(g(a, kw, 1, 'm')), bool(g(a, kw, 2, 'is_greedy', True))),
         'capture': lambda s, a, kw: ('Capture', _arg(s), _name(g(a, kw, 0, 'name'))),
         'group': lambda s, a, kw: ('Group', _arg(s), bool(g(a, kw, 0, 'is_case_insensitive', False))),
         'match_at_start': lambda s, a, kw: ('Anchor', 'bos', _arg(s)), 'match_at_end': lambda s, a, kw: ('Anchor', 'eos', _arg(s)),
         'match_at_line_start': lambda s, a, kw: ('Anchor', 'bol', _arg(s)), 'match_at_line_end': lambda s, a, kw: ('Anchor', 'eol', _arg(s)),
         '__add__': lambda s, a, kw: ('Concat', ('args', _arg(s), _arg(a[0]))), '__radd__': lambda s, a, kw: ('Concat', ('args', _arg(a[0]), _arg(s))),
         '__mul__': lambda s, a, kw: ('Mul', _arg(s), _bound(a[0])), '__rmul__': lambda s, a, kw: ('Mul', _arg(s), _bound(a[0]))}
    for name, (d, p) in {'followed_by': ('ahead', True), 'not_followed_by': ('ahead', False), 'preceded_by': ('behind', True),
                         'not_preceded_by': ('behind', False), 'enclosed_by': ('both', True), 'not_enclosed_by': ('both', False)}.items():
        M[name] = lambda s, a, kw, d=d, p=p: ('Look', d, p, _arg(s), ('args', _arg(a[0])))
    for name, mk in M.items():
        _wrap_method(Pregex, name, mk)


def _dump():
    if not OUT:
        return
    seen = set()
    with open(OUT, 'w') as fh:
        for term, exc in _events:
            key = json.dumps([term, exc])
            if key in seen:
                continue
            seen.add(key)
            fh.write(key + '\n')


if ENABLED:
    install()
    atexit.register(_dump)
