"""C01: sweep of single-character literals over the whole of Unicode.

For every code point c in the assigned ranges: Pregex(chr(c)) and Concat(chr(c), 'x') must exactly-match the
literal text and nothing else among {chr(c), chr(c-1), chr(c+1), chr(c)*2, '', chr(c)+'x', 'x'} - the instance of
the model-level theorem LiteralDenotation (MC_Sem) for that character."""
import collections

from . import build as B
from pregex.core.pre import Pregex
import pregex.core.operators as op


def judge(payload, params):
    stats = collections.Counter()
    failures = []
    for lo, hi, step in payload:
        for c in range(lo, hi, step):
            ch = chr(c)
            stats['cases'] += 1
            try:
                p = Pregex(ch)
                q = op.Concat(ch, 'x')
                cands = [ch, chr(c - 1) if c > 0 else 'zz', chr(c + 1) if c < 0x10FFFF else 'zz', ch * 2, '', ch + 'x', 'x']
                for t in cands:
                    if p.is_exact_match(t) != (t == ch):
                        failures.append({'property': 'C01', 'kind': 'sweep', 'replay_module': 'judge_sweep', 'facet': 'behaviour',
                                         'term': 'Pregex(chr(%d))' % c, 'spelling': 'class', 'codepoint': c,
                                         'detail': {'text': t, 'emitted': str(p), 'observed': p.is_exact_match(t), 'expected': t == ch}})
                        break
                    if q.is_exact_match(t) != (t == ch + 'x'):
                        failures.append({'property': 'C01', 'kind': 'sweep', 'replay_module': 'judge_sweep', 'facet': 'behaviour',
                                         'term': "Concat(chr(%d), 'x')" % c, 'spelling': 'class', 'codepoint': c,
                                         'detail': {'text': t, 'emitted': str(q), 'observed': q.is_exact_match(t), 'expected': t == ch + 'x'}})
                        break
            except Exception as e:  # noqa
                failures.append({'property': 'C01', 'kind': 'sweep', 'replay_module': 'judge_sweep', 'facet': 'crash',
                                 'term': 'Pregex(chr(%d))' % c, 'spelling': 'class', 'codepoint': c,
                                 'detail': {'observed': type(e).__name__, 'message': str(e)[:200]}})
    return {'stats': dict(stats), 'failures': failures[:50], 'samples': []}


def replay_record(rec):
    out = judge([(rec['codepoint'], rec['codepoint'] + 1, 1)], {})
    for f in out['failures']:
        print('failure:', f['term'], f['detail'])
    print('REPRODUCED' if out['failures'] else 'not reproduced on the current tree')
    return 1 if out['failures'] else 0
