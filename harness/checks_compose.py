"""C01-C05, C08-C10: properties decided on the builder state machine (PregexSpine)."""
import itertools
import random
import time

from . import universe as UV
from .runner import run_generated, report, tier_and_seed

ALL_OPS = {'concat', 'either', 'enclose', 'quant', 'group', 'anchor', 'look'}
QUANTS_SMALL = {('Optional', 0, 1, True), ('Optional', 0, 1, False), ('Indefinite', 0, -1, True),
                ('OneOrMore', 1, -1, False), ('Exactly', 2, 2, True), ('AtLeastAtMost', 1, 2, True),
                ('AtLeast', 2, -1, False), ('AtMost', 0, 2, True), ('Mul', 3, 3, True)}
QUANTS_TWO = {('Optional', 0, 1, True), ('OneOrMore', 1, -1, False)}
SPINE_INVARIANTS = ['OkIsWF', 'OutcomeTotal', 'RepeatRule', 'LookbehindRule', 'PrecSafeInv', 'InferWrapSafe', 'InferWrapAgree', 'InferRepeatSound']
SPINE_PROPS = ['EmptyNeutralStep', 'EmptyNegRaises']

ASSUME = ['CPython re executes both the emitted pattern and the reference text (engine quirks cancel)',
          'text universes are bounded: all texts over the characters of the expression plus decoys up to length 3, '
          'and over the expression characters alone up to length 4-8',
          'expression shapes are bounded: spine trees of the stated depth over the stated pool',
          'TLA+ value parser (harness/tlaval.py) and surface-term interpreter (harness/build.py) are trusted']


def spine_cfg():
    return 'SPECIFICATION Spec\n' + ''.join('INVARIANT %s\n' % i for i in SPINE_INVARIANTS) + \
        ''.join('PROPERTY %s\n' % p for p in SPINE_PROPS) + 'CHECK_DEADLOCK FALSE\n'


def spine_config(name, wins, maxd, opsel, poolsel, quants=QUANTS_SMALL, names=('n',), strs=(), workers=8,
                 timeout=14000, params=None, semlen=0, sample=1):
    return dict(name=name, module='PregexSpine', cfg=spine_cfg(), workers=workers, timeout=timeout, sample=sample,
                invariants=SPINE_INVARIANTS + SPINE_PROPS, params=params or {},
                defs={'Wins': set(tuple(w) for w in wins), 'MaxD': maxd, 'OpSel': set(opsel),
                      'PoolSel': set(poolsel), 'Quants': set(quants), 'Names': set(names),
                      'Strs': set(tuple(x) for x in strs), 'SemLen': semlen})


SEM_INV = {'C04': ['BoundsExact', 'GreedyLazyPreference', 'SpellingsAgree', 'BadBoundsRejected'], 'C01': ['LiteralDenotation'],
           'C08': ['GroupingPreservesLanguage'], 'C05': ['EmptyNeutralSem']}


def sem_config(prop, tier):
    """Model-level theorems of the property on the reference semantics (MC_Sem), no replay."""
    inv = SEM_INV[prop]
    hi = 4 if tier == 'quick' else 5
    bounds = {(n, m) for n in range(0, hi) for m in list(range(0, hi)) + [-1] if m == -1 or n <= m}
    if prop in ('C01',):
        bounds = {(1, 1)}
    return dict(name='MC_Sem ' + '+'.join(inv), module='MC_Sem', model_only=True, invariants=inv, workers=8,
                cfg='SPECIFICATION Spec\n' + ''.join('INVARIANT %s\n' % i for i in inv) + 'CHECK_DEADLOCK FALSE\n',
                defs={'SemWin': (97, 36) if prop == 'C01' else (97, 98), 'Bounds': bounds})


FULL_POOL = {'empty', 'class', 'token', 'wb', 'alt', 'cat', 'quant', 'group', 'assert', 'pregex'}


# ----------------------------------------------------------------------------- C02
def compose_configs(tier, seed):
    wins = UV.windows(tier, seed)
    if tier == 'quick':
        return [spine_config('depth1-fullpool', wins[:4], 1, ALL_OPS, FULL_POOL | {'focusall'}, semlen=2),
                spine_config('depth2-leaves', wins[:1], 2, ALL_OPS - {'enclose'}, set(), quants=QUANTS_TWO, names=())] + \
            random_term_configs(tier, seed) + test_suite_term_configs()
    return [spine_config('depth1-fullpool', wins, 1, ALL_OPS | {'cond'}, FULL_POOL | {'focusall', 'lit3'}),
            spine_config('depth1-calibration', wins[:8], 1, ALL_OPS, FULL_POOL | {'focusall'}, semlen=3),
            spine_config('depth2-midpool', wins[:1], 2, ALL_OPS, {'class', 'alt', 'cat', 'quant', 'group', 'assert'}),
            spine_config('depth2-fullpool-sampled', wins[1:2], 2, ALL_OPS, FULL_POOL, sample=6),
            spine_config('depth3-leaves', wins[:1], 3, ALL_OPS - {'enclose'}, set(), quants=QUANTS_TWO, names=())] + \
        random_term_configs(tier, seed) + test_suite_term_configs()


# ----------------------------------------------------------------------------- C01
def strings(tier, seed):
    """Strings for C01/C09: all single catalogue characters, all pairs with a metacharacter, seeded triples."""
    rnd = random.Random(seed)
    cat = UV.CATALOGUE
    meta = UV.META + UV.INCLASS
    out = [()] + [(c,) for c in cat]
    pairs = [(a, b) for a in meta for b in meta] + [(a, b) for a in (97, 49, 10) for b in meta] + \
            [(b, a) for a in (97, 49, 10) for b in meta]
    if tier == 'quick':
        rnd.shuffle(pairs)
        core = [(92, 39), (39, 92), (92, 34), (39, 34), (58, 97), (92, 92), (36, 36), (92, 36), (97, 36), (36, 97), (91, 97), (97, 91), (92, 91), (92, 93), (40, 41),
                (124, 124), (97, 124), (94, 97), (97, 94), (63, 63), (97, 63), (123, 125), (47, 47), (92, 110), (92, 49)]
        out += core + [p for p in pairs if p not in core][:60]
        ntr = 60
    else:
        out += sorted(set(pairs))
        out += [(a, b) for a in cat for b in (97, 36, 92)]
        ntr = 1500
    core3 = [(97, 63, 58), (63, 58, 97), (40, 63, 58), (97, 36, 98), (92, 92, 92), (97, 92, 36), (91, 97, 93), (40, 63, 58), (97, 124, 98), (123, 49, 125),
             (97, 123, 50), (92, 40, 41), (36, 94, 36), (97, 10, 98), (91, 94, 93)]
    out += core3
    for _ in range(ntr):
        out.append((rnd.choice(cat), rnd.choice(meta), rnd.choice(cat)))
        out.append((rnd.choice(meta), rnd.choice(cat), rnd.choice(meta)))
    return sorted(set(out))


def literal_configs(tier, seed):
    strs = strings(tier, seed)
    wins = [(120, 121, 122)]
    ops = ALL_OPS | {'cond', 'unary'}
    cfgs = [spine_config('positions-x-strings', wins, 1, ops, {'strs', 'pregexstrs', 'minpool'},
                         quants=QUANTS_SMALL, strs=strs)]
    # strings that look like group / quantifier / class syntax, under two nested group or quantifier calls
    syn = [(58, 97), (58,), (58, 58, 49), (63, 97), (39, 97, 39), (97, 63, 58, 98), (40, 63, 58, 97, 41), (40, 63, 80, 60, 110, 62, 97, 41), (63, 58), (40, 63, 105, 58, 97, 41), (97, 123, 50, 125),
           (91, 97, 45, 122, 93), (40, 97, 41), (92, 49), (97, 124, 98), (40, 63, 61, 97, 41), (94, 97, 36), (92, 98)]
    if tier != 'quick':
        syn += [x for x in strs if len(x) == 2][:400]
    cfgs.append(spine_config('syntax-like-strings-nested', wins, 2 if tier == 'quick' else 3, {'group', 'quant', 'unary'},
                             {'strs', 'minpool'}, quants=QUANTS_TWO | {('Exactly', 2, 2, True)}, strs=syn))
    return cfgs


# ----------------------------------------------------------------------------- C04
def quant_configs(tier, seed):
    wins = UV.windows(tier, seed)
    vals = [0, 1, 2, 3, -1, -2, -3, -4, -5, -6, -7, -8]
    quants = set()
    for g in (True, False):
        quants |= {('Optional', 0, 1, g), ('Indefinite', 0, -1, g), ('OneOrMore', 1, -1, g)}
        for n in vals:
            quants |= {('AtLeast', n, -1, g), ('AtMost', 0, n, g)}
            for m in vals:
                quants.add(('AtLeastAtMost', n, m, g))
    for n in vals:
        quants |= {('Exactly', n, n, True), ('Mul', n, n, True)}
    pool = {'empty', 'class', 'alt', 'cat', 'quant', 'group', 'token', 'focusall', 'pregex'}
    qq = {q for q in quants if q[1] >= -1 and q[2] >= -1 and q[1] <= 2 and q[2] <= 2}
    if tier == 'quick':
        return [spine_config('quant-lattice', wins[:2], 1, {'quant'}, pool, quants=quants, params={'deep': True}),
                spine_config('quant-of-quant', wins[:1], 2, {'quant'}, {'class'}, quants=qq, params={'deep': True})]
    return [spine_config('quant-lattice', wins[:12], 1, {'quant'}, pool | {'lit3', 'wb', 'assert'}, quants=quants, params={'deep': True}),
            spine_config('quant-of-quant', wins[:3], 2, {'quant'}, {'class', 'alt'},
                         quants={q for q in quants if q[1] >= -1 and q[2] >= -1 and q[1] <= 2 and q[2] <= 2}, params={'deep': True})]


# ----------------------------------------------------------------------------- C05
def empty_configs(tier, seed):
    wins = UV.windows(tier, seed)
    wins = [wins[2], wins[0], wins[1]] + wins[3:]          # '|' first: the separator of Either
    pool = {'empty', 'emptyforms', 'class', 'alt', 'quant', 'group', 'assert'}
    if tier == 'quick':
        return [spine_config('empty-depth1', wins[:3], 1, ALL_OPS | {'cond', 'unary'}, pool | {'focusall'}),
                spine_config('empty-depth2', wins[:1], 2, ALL_OPS - {'enclose', 'look'}, {'empty', 'emptyforms'}, quants=QUANTS_TWO, names=())]
    return [spine_config('empty-depth1', wins[:10], 1, ALL_OPS | {'cond'}, pool | {'focusall', 'token', 'wb'}),
            spine_config('empty-depth2', wins[:1], 2, ALL_OPS, {'empty', 'emptyforms', 'class'}, quants=QUANTS_TWO),
            spine_config('empty-depth3-sampled', wins[:1], 3, ALL_OPS - {'enclose', 'look'}, {'empty', 'emptyforms'}, quants=QUANTS_TWO, names=(), sample=5)]


# ----------------------------------------------------------------------------- C08
def group_configs(tier, seed):
    wins = UV.windows(tier, seed)
    pool = {'parens', 'looks', 'refs', 'alt', 'quant', 'group', 'nested', 'focusall', 'minpool'}
    ctxwins = [(97, 41, 40), (97, 40, 63)] + wins
    if tier == 'quick':
        return [spine_config('group-nesting-3', wins[:2], 3, {'group'}, pool, names=('n', 'nn')),
                spine_config('group-in-context', ctxwins[:1], 2, {'group', 'concat', 'either', 'quant'}, {'group', 'alt', 'nested', 'focusall'}, quants=QUANTS_TWO, names=('n', 'm')),
                spine_config('group-concat-group', ctxwins[:1], 3, {'group', 'concat'}, {'nolit'}, names=('n', 'nn'))]
    return [spine_config('group-nesting-4', wins[:6], 4, {'group'}, pool, names=('n', 'm')),
            spine_config('group-in-context', ctxwins[:4], 2, {'group', 'concat', 'either', 'quant'}, {'group', 'alt', 'nested', 'focusall'}, quants=QUANTS_TWO, names=('n', 'm')),
            spine_config('group-in-context-depth3-sampled', ctxwins[:1], 3, {'group', 'concat', 'either', 'quant'}, {'group', 'alt', 'nested', 'focusall'}, quants=QUANTS_TWO, names=('n', 'm'), sample=4),
            spine_config('group-concat-group', ctxwins[:3], 4, {'group', 'concat'}, {'nolit'}, names=('n',))]


# ----------------------------------------------------------------------------- C09
def repeat_configs(tier, seed):
    wins = UV.windows(tier, seed)
    strs = strings(tier, seed)
    quants = {('Optional', 0, 1, True), ('Indefinite', 0, -1, True), ('OneOrMore', 1, -1, False), ('Exactly', 0, 0, True),
              ('Exactly', 1, 1, True), ('Exactly', 2, 2, True), ('AtLeast', 0, -1, True), ('AtLeast', 2, -1, False),
              ('AtMost', 0, 1, True), ('AtMost', 0, 2, True), ('AtMost', 0, -1, True), ('AtLeastAtMost', 0, 1, True),
              ('AtLeastAtMost', 1, 2, True), ('AtLeastAtMost', 1, -1, False), ('AtLeastAtMost', 1, 1, True),
              ('Mul', 0, 0, True), ('Mul', 1, 1, True), ('Mul', 2, 2, True)}
    cfgs = [spine_config('quantify-literals', [(120, 121, 122)], 1, {'quant'}, {'strs', 'pregexstrs', 'minpool'},
                         quants=quants, strs=strs),
            spine_config('quantify-assertions', wins[:1] if tier == 'quick' else wins[:2], 2,
                         {'quant', 'anchor', 'look', 'group', 'either'} if tier == 'quick' else ALL_OPS,
                         {'empty', 'wb'} if tier == 'quick' else {'empty', 'class', 'wb', 'alt', 'token'},
                         quants=quants)]
    return cfgs


# ----------------------------------------------------------------------------- C10
def width_configs(tier, seed):
    wins = [(97, 63, 42), (97, 43, 123), (97, 125, 44)] + UV.windows(tier, seed)
    quants = {('Optional', 0, 1, True), ('Indefinite', 0, -1, False), ('Exactly', 2, 2, True), ('AtLeastAtMost', 1, 2, True),
              ('AtLeastAtMost', 2, 2, True), ('AtMost', 0, 2, True), ('AtLeast', 1, -1, True), ('Mul', 3, 3, True)}
    pool = {'class', 'alt', 'quant', 'group', 'assert', 'token', 'wb', 'empty'}
    if tier == 'quick':
        return [spine_config('lookbehind-depth2', wins[:1], 2, {'look', 'quant', 'either', 'concat', 'group'}, {'class', 'wb'}, quants=quants, names=()),
                spine_config('lookbehind-of-derived', wins[:1], 2, {'look', 'quant'}, {'minpool', 'alt', 'quant', 'focusall'},
                             quants={('Optional', 0, 1, True), ('Exactly', 2, 2, True), ('AtLeastAtMost', 1, 2, True), ('Mul', 3, 3, True)}, names=()),
                spine_config('lookbehind-pool', wins[:3], 1, {'look'}, pool | {'focusall', 'lit3'}, quants=quants)]
    return [spine_config('lookbehind-depth2', wins[:4], 2, ALL_OPS, {'class', 'alt', 'empty'}, quants=quants, names=()),
            spine_config('lookbehind-pool', wins, 1, {'look'}, pool | {'focusall', 'lit3'}, quants=quants),
            spine_config('lookbehind-depth3-sampled', wins[:1], 3, {'look', 'quant', 'either', 'concat'}, {'class'}, quants=QUANTS_TWO | {('Exactly', 2, 2, True)}, names=(), sample=5)]


# ----------------------------------------------------------------------------- C03 (builder part)
def total_configs(tier, seed):
    wins = UV.windows(tier, seed)
    vals = [0, 1, 2, -1, -2, -3, -4, -5]
    quants = {('Optional', 0, 1, True), ('Indefinite', 0, -1, False), ('OneOrMore', 1, -1, True)}
    for n in vals:
        quants |= {('Exactly', n, n, True), ('Mul', n, n, True), ('AtLeast', n, -1, True), ('AtMost', 0, n, False)}
        for m in (1, 2, -1, -2, -3):
            quants.add(('AtLeastAtMost', n, m, True))
    ops = ALL_OPS | {'cond', 'badnames'}
    pool = FULL_POOL | {'bad', 'focusall', 'parens', 'looks', 'refs'}
    if tier == 'quick':
        return [spine_config('argspace-depth1', wins[:3], 1, ops, pool, quants=quants),
                spine_config('trees-depth2', wins[:1], 2, ALL_OPS - {'enclose'}, {'bad'}, quants=QUANTS_TWO, names=())]
    return [spine_config('argspace-depth1', wins[:24], 1, ops, pool | {'lit3'}, quants=quants),
            spine_config('trees-depth2', wins[:1], 2, ops, {'class', 'alt', 'quant', 'group', 'assert', 'bad'}, quants=QUANTS_SMALL),
            spine_config('trees-depth3', wins[:1], 3, ALL_OPS - {'enclose'}, {'bad'}, quants=QUANTS_TWO, names=())]


def terms_config(name, terms):
    """Validate a list of surface terms against Eval(term) (PregexTerms): one state per term, replayed like spine states."""
    import json
    from . import randterms as RT
    c = spine_config(name, [(97, 98, 99)], 1, set(), set(), quants=set(), names=())
    c.update(module='PregexTerms', workers=1, invariants=['AllConsumed', 'TLayerI'],
             cfg='SPECIFICATION TSpec\nINVARIANT TLayerI\nPOSTCONDITION AllConsumed\nCHECK_DEADLOCK FALSE\n',
             extra_files={'terms.json': json.dumps([RT.to_json(t) for t in terms])})
    return c


def _tuplify(x):
    return tuple(_tuplify(e) for e in x) if isinstance(x, list) else x


def harvest_test_suite():
    """Run the repository's own test suite under the external tracer (guard PREGEX_VERIF_TRACE=1) and return the
    recorded builder events as (term, exception name | None)."""
    import json, os, subprocess, tempfile
    from .farm import REPO, VERIF
    from .tlc import scratch_root, MachineryError
    fd, out = tempfile.mkstemp(prefix='pregex-verif.trace.', suffix='.jsonl', dir=scratch_root())
    os.close(fd)
    try:
        env = dict(os.environ, PREGEX_VERIF_TRACE='1', PREGEX_VERIF_TRACE_OUT=out, PYTHONDONTWRITEBYTECODE='1',
                   PYTHONPATH=VERIF + os.pathsep + os.path.join(REPO, 'src'))
        p = subprocess.run(['/venv/bin/python', '-W', 'ignore', '-m', 'pytest', '-q', '-p', 'no:cacheprovider', '-p', 'harness.tracer',
                            os.path.join(REPO, 'tests')], cwd=REPO, env=env, capture_output=True, text=True, timeout=900)
        events = [json.loads(l) for l in open(out) if l.strip()]
        if not events:
            raise MachineryError('the tracer recorded nothing from the repository test suite:\n' + (p.stdout + p.stderr)[-1500:])
        return [(_tuplify(t), e) for t, e in events]
    finally:
        os.remove(out)


def test_suite_term_configs():
    """Trace validation of the builder calls of the repository's test suite against Eval(term)."""
    import json
    ev = harvest_test_suite()
    c = terms_config('repo-test-suite-builder-trace', [t for t, _ in ev])
    c['params'] = {'recorded': {json.dumps(t): e for t, e in ev}}
    return [c]


def S_(s):
    return ('str', tuple(ord(c) for c in s))


CAP_A = ('Capture', S_('a'), ('none',))
CAP_N = ('Capture', S_('b'), ('name', 'n'))
# curated programs: token adjacency and reference contexts that neither the spine pools nor random draws reach reliably
CURATED_TERMS = [
    ('Concat', ('args', CAP_A, ('Backreference', ('i', 1)), S_('1'))),
    ('Concat', ('args', CAP_A, ('Backreference', ('i', 1)), S_('0a'))),
    ('Concat', ('args', CAP_A, ('Backreference', ('i', 1)), ('AnyDigit',))),
    ('Concat', ('args', CAP_A, ('Backreference', ('i', 1)), ('Exactly', S_('7'), ('i', 2)))),
    ('Enclose', ('args', S_('1x'), ('Concat', ('args', ('Group', S_('b'), False), CAP_A, ('Backreference', ('i', 1)))))),
    ('Concat', ('args', CAP_A, ('Optional', ('Backreference', ('i', 1)), True), S_('2'))),
    ('Concat', ('args', CAP_A, ('Exactly', ('Backreference', ('i', 1)), ('i', 2)), S_('3'))),
    ('Concat', ('args', CAP_N, ('Backreference', ('name', 'n')), S_('n1'))),
    ('Concat', ('args', CAP_N, ('OneOrMore', ('Backreference', ('name', 'n')), False))),
    ('Either', ('args', ('Concat', ('args', CAP_A, ('Backreference', ('i', 1)))), S_('1'))),
    ('Concat', ('args', ('Optional', CAP_N, True), ('Conditional', ('name', 'n'), S_('1'), S_('2')), S_('3'))),
    ('Concat', ('args', ('Optional', CAP_N, True), ('Conditional', ('name', 'n'), ('Either', ('args', S_('x'), S_('y'))), ('Either', ('args', S_('z'), S_('w')))))),
    ('Look', 'ahead', True, ('Concat', ('args', CAP_A, ('Backreference', ('i', 1)))), ('args', S_('1'))),
    ('Concat', ('args', ('Token', 'Backslash'), S_('1'))),
    ('Concat', ('args', S_('\\'), S_('1'), CAP_A)),
    ('Concat', ('args', ('Exactly', S_('a'), ('i', 2)), S_('3'))),
    ('Concat', ('args', ('AtLeast', S_('a'), ('i', 2), True), S_(','))),
    ('Concat', ('args', S_('a{2'), S_('}'))),
    ('Concat', ('args', S_('a'), S_('{2}'))),
    ('Concat', ('args', ('Optional', S_('a'), True), S_('?'))),
    ('Concat', ('args', ('Optional', S_('a'), True), ('Optional', S_('?'), False))),
    ('Concat', ('args', ('Group', S_('a'), False), S_('?'), S_(':'))),
    ('Concat', ('args', S_('('), S_('?'), S_(':a)'))),
    ('Concat', ('args', S_('[a'), S_('-'), S_('z]'))),
    ('Concat', ('args', ('AnyFrom', (97, 45)), S_('-'), ('AnyFrom', (122,)))),
    ('Either', ('args', S_('a'), ('Concat', ('args', S_('|'), S_('b'))))),
    ('Concat', ('args', ('Anchor', 'eol', S_('a')), S_('$'), ('Anchor', 'bol', S_('^')))),
    ('Either', ('args', S_('ab!'), S_('ab'), S_('ab!'))),
    ('Either', ('args', S_('a'), S_('ab'), S_('a'), S_('abc'))),
    ('Concat', ('args', ('Either', ('args', S_('a\\\\'), S_('b'))), S_('c'))),
    ('Concat', ('args', S_('x'), ('Either', ('args', S_('\\\\'), S_('b'), S_('c\\'))), S_('y'))),
    ('Exactly', ('Concat', ('args', S_('x'), ('Exactly', S_('a'), ('i', 2)))), ('i', 3)),
    ('Mul', ('Concat', ('args', S_('x'), ('Exactly', S_('a'), ('i', 2)))), ('i', 2)),
    ('AtLeastAtMost', ('Concat', ('args', ('Exactly', S_('a'), ('i', 2)), S_('{3}'))), ('i', 2), ('i', 2), True),
    ('Pregex', tuple(ord(c) for c in "it\\'s")),
    ('Concat', ('args', ('Token', 'Backslash'), S_("'"))),
    ('Concat', ('args', S_("'"), ('OneOrMore', ('AnyFrom', (97, 98)), True), S_("'"))),
    ('Capture', ('Group', S_(':a'), False), ('none',)),
    ('Capture', ('Group', S_('::1'), False), ('name', 'n')),
    ('Capture', ('Capture', ('Concat', ('args', ('Capture', S_('a'), ('name', 'n')), S_('b'))), ('name', 'nn')), ('name', 'k')),
    ('Look', 'behind', True, S_('x'), ('args', ('Optional', ('WordBoundary',), True))),
    ('Look', 'behind', False, S_('x'), ('args', ('AtLeastAtMost', ('WordBoundary',), ('i', 1), ('i', 2), True))),
    ('Look', 'both', True, S_('x'), ('args', ('Indefinite', ('NonWordBoundary',), True))),
    ('Look', 'behind', True, S_('x'), ('args', ('Concat', ('args', ('Optional', ('AnyFrom', (97, 92)), True), ('AnyFrom', (120, 121)))))),
    ('Exactly', ('Anchor', 'bos', S_('a')), ('i', 0)),
    ('Concat', ('args', S_('x'), ('Exactly', ('Anchor', 'bos', S_('a')), ('i', 0)), S_('y'))),
    ('AtMost', ('Look', 'ahead', True, S_('a'), ('args', S_('b'))), ('i', 0), True),
    ('OneOrMore', ('Anchor', 'bos', ('Concat', ('args', S_('word'), ('WordBoundary',)))), True),
    ('OneOrMore', ('Anchor', 'bos', ('WordBoundary',)), True),
    ('Indefinite', ('Look', 'ahead', True, ('Look', 'behind', False, S_('w'), ('args', S_('-'))), ('args', S_('!'))), True),
    # large parameters, many operands, positions (round 4)
    ('Look', 'behind', True, S_('x'), ('args', ('AtLeastAtMost', ('AnyDigit',), ('i', 10), ('i', 12), True))),
    ('Look', 'behind', False, S_('x'), ('args', ('AtLeast', S_('a'), ('i', 10), True))),
    ('Look', 'both', True, S_('x'), ('args', ('AtMost', S_('a'), ('i', 12), True))),
    ('Look', 'behind', True, S_('x'), ('args', ('Exactly', ('AnyDigit',), ('i', 12)))),
    ('Look', 'behind', False, ('AnyDigit',), ('args', ('Either', ('args', S_('+'), S_('-'))), ('AnyFrom', (97, 98)))),
    ('Look', 'behind', True, S_('x'), ('args', ('Either', ('args', S_('ab'), S_('c'))), S_('d'))),
    ('Look', 'behind', True, S_('x'), ('args', S_('d'), ('Either', ('args', S_('ab'), S_('cd'))))),
    ('Look', 'both', False, S_('x'), ('args', ('Either', ('args', S_('a'), S_('b'))), ('Either', ('args', S_('c'), S_('de'))))),
    ('Look', 'behind', True, S_('x'), ('args', ('Look', 'ahead', True, S_('a'), ('args', ('Exactly', ('Concat', ('args', ('Either', ('args', S_('b'), ('OneOrMore', S_('c'), True))), S_('d'))), ('i', 2)))))),
    ('Look', 'behind', False, S_('x'), ('args', ('Look', 'ahead', False, S_('ab'), ('args', ('Group', ('Concat', ('args', ('Group', ('Optional', S_('c'), True), False), S_('d'))), False))))),
    S_('((x)'), S_('(x))'), S_('[0]]'), S_('f(x)*g(y)'), ('Concat', ('args', S_('a'), S_('((x)'), ('Optional', S_('[[a]'), True))),
    ('OneOrMore', ('Anchor', 'bos', ('Either', ('args', S_('x'), ('Capture', ('Concat', ('args', S_('a'), ('Capture', ('Concat', ('args', S_('b'), ('Capture', S_('c'), ('none',)))), ('none',)))), ('none',))))), True),
    ('Exactly', ('Look', 'ahead', True, ('Either', ('args', S_('x'), ('Group', ('Concat', ('args', S_('a'), ('Group', ('Concat', ('args', S_('b'), ('Group', ('Concat', ('args', S_('c'), ('Group', S_('d'), False))), False))), False))), False))), ('args', S_('y'))), ('i', 2)),
    ('Mul', ('Anchor', 'eol', S_('a')), ('i', 0)), ('Mul', ('Anchor', 'eol', S_('a')), ('i', 1)), ('Mul', ('Look', 'ahead', True, S_('a'), ('args', S_('b'))), ('i', 1)),
    ('OneOrMore', ('Look', 'ahead', True, ('Concat', ('args', ('WordBoundary',), S_('word'))), ('args', S_('-'))), True),
    ('Indefinite', ('Anchor', 'bol', ('Look', 'ahead', False, S_('word'), ('args', S_('s')))), True),
    ('AtLeast', ('Anchor', 'eol', ('Look', 'behind', False, S_('word'), ('args', S_('s')))), ('i', 2), True),
    S_('.' * 30), S_('a.b|c' * 8), S_('C:\\dir\\sub.d\\f(1).txt' * 2), ('Pregex', tuple(ord(c) for c in '^$' * 14)),
    ('Concat', ('args', S_('x'), S_('+' * 26), S_('y'))),
    S_("'hello'"), ('Pregex', tuple(ord(c) for c in '"hi"')), ('Concat', ('args', S_('say '), S_('"hi"'))), ('Enclose', ('args', S_('word'), S_("'"))),
    ('Pregex', tuple(ord(c) for c in 'it\'s "x\"')), ('Either', ('args', S_("'a"), S_('b"'))),
    ('Enclose', ('args', ('Concat', ('args', CAP_A, ('Backreference', ('i', 1)))), S_('7'))),
    ('Enclose', ('args', ('Concat', ('args', CAP_A, ('Backreference', ('i', 1)))), S_('00'))),
    ('Enclose', ('args', S_('p'), S_('a'), S_('b'), S_('c'))),
    ('Enclose', ('args', S_('p'), S_('a'), ('Either', ('args', S_('b'), S_('c'))), S_('d'), S_('e'))),
    ('Either', ('args', S_('foo'), S_('bar'), ('Pregex', ()), S_('qux'))),
    ('Either', ('args', S_('a'), S_('b'), S_(''), S_('c'), S_('d'))),
    ('Either', ('args', S_('a'), ('Pregex', ()), S_('b'), S_('c'), S_('d'), S_('e'))),
    ('Concat', ('args', S_('a'), S_('b'), ('Pregex', ()), S_('c'), ('Exactly', S_('z'), ('i', 0)), S_('d'))),
    ('Concat', ('args', S_('x'), ('AtLeastAtMost', ('Pregex', ()), ('i', 10), ('i', 20), True), S_('y'))),
    ('Concat', ('args', S_('x'), ('Exactly', S_(''), ('i', 100)), S_('y'))),
    ('Concat', ('args', S_('x'), ('AtLeast', ('Concat', ('args',)), ('i', 12), False), S_('y'))),
    ('Concat', ('args', S_('x'), ('AtMost', ('Pregex', ()), ('i', 10), True), S_('y'))),
    ('AtLeastAtMost', S_('ab'), ('i', 2), ('i', 10), True), ('AtLeastAtMost', S_('ab'), ('i', 9), ('i', 10), False),
    ('AtLeastAtMost', S_('a'), ('i', 5), ('i', 100), True), ('AtLeastAtMost', S_('a'), ('i', 10), ('i', 9), True),
    ('AtLeastAtMost', S_('a'), ('i', 12), ('i', 3), True), ('AtLeastAtMost', S_('a'), ('i', 100), ('i', 20), True),
    ('AtLeastAtMost', S_('ab'), ('i', 10), ('float10',), True), ('AtLeastAtMost', S_('ab'), ('i', 2), ('float2',), True),
    ('Exactly', ('Group', S_('ab'), True), ('i', 3)), ('Mul', ('Group', S_('ab'), True), ('i', 10)), ('OneOrMore', ('Group', S_('ab'), True), False),
    ('Capture', ('Group', S_('ab'), True), ('name', 'n')), ('Capture', ('Group', ('Either', ('args', S_('a'), S_('b'))), True), ('name', 'k')),
    ('Capture', ('Capture', ('Capture', ('Capture', ('Capture', S_('d'), ('none',)), ('none',)), ('none',)), ('none',)), ('none',)),
    ('Capture', ('Concat', ('args', S_('a'), ('Capture', ('Concat', ('args', S_('b'), ('Capture', ('Concat', ('args', S_('c'), ('Capture', S_('d'), ('none',)))), ('none',)))), ('none',)))), ('name', 'n')),
    ('Group', ('Concat', ('args', S_('a'), ('Capture', ('Concat', ('args', S_('b'), ('Capture', ('Concat', ('args', S_('c'), ('Capture', ('Concat', ('args', S_('d'), ('Capture', S_('e'), ('none',)))), ('none',)))), ('none',)))), ('none',)))), False),
    ('Concat', ('args', ('Optional', CAP_N, True), ('Conditional', ('name', 'n'), ('Either', ('args', S_('B'), S_('C')))))),
    ('Concat', ('args', ('Optional', CAP_N, True), ('Conditional', ('name', 'n'), ('Either', ('args', S_('B'), S_('C'), S_('D')))))),
    ('Concat', ('args', ('Optional', CAP_N, True), ('Conditional', ('name', 'n'), S_('x'), ('Capture', ('Either', ('args', S_(';'), S_('!'))), ('name', 'k'))))),
    ('Concat', ('args', ('Optional', CAP_N, True), ('Conditional', ('name', 'n'), S_('x'), ('Group', ('Either', ('args', S_('a'), S_('b'))), True)))),
]


def random_term_configs(tier, seed, n_quick=4000, n_thorough=60000):
    from . import randterms as RT
    n = n_quick if tier == 'quick' else n_thorough
    terms = CURATED_TERMS + RT.generate(seed * 7919 + 17, n)
    cfgs = [terms_config('random-programs-%d' % i, terms[i:i + 20000]) for i in range(0, len(terms), 20000)]
    wide = RT.generate_wide(seed * 31 + 7, 1200 if tier == 'quick' else 20000)
    cfgs.append(terms_config('wide-programs', wide))
    for c in cfgs:
        c['params'] = dict(c.get('params') or {}, members=True)
    return cfgs


RANDOM_PROGRAMS_FOR = {'C01', 'C03', 'C04', 'C05', 'C08', 'C09', 'C10'}      # C02 lists them in compose_configs


def generic(prop, facets, rule, configs_fn, args_tier=None, seeds=None, mode='rr', extra_assume=(), params=None):
    tier, seed = tier_and_seed(args_tier)
    if seeds is None:
        # states are distributed over several PYTHONHASHSEED values; the curated programs run under every one of them
        seeds = sorted({0, 1, 2, seed % (2 ** 32)})[:4]
    t0 = time.time()
    p = {'prop': prop, 'facets': sorted(facets)}
    p.update(params or {})
    if callable(seeds):
        seeds = seeds(tier, seed)
    cfgs = configs_fn(tier, seed)
    if prop in RANDOM_PROGRAMS_FOR:
        cfgs = cfgs + random_term_configs(tier, seed)
    if prop in SEM_INV:
        cfgs = [sem_config(prop, tier)] + cfgs
    res = run_generated(cfgs, 'harness.judge_compose.judge', p, seeds=seeds, mode=mode)
    run_generated([terms_config('curated-programs-under-every-hash-seed', CURATED_TERMS)], 'harness.judge_compose.judge', p,
                  seeds=list(seeds), mode='all', result=res)
    if prop in HEAP_STAGE:
        heap_stage(prop, tier, seeds, res)
    swept = codepoint_sweep(tier, res) if prop == 'C01' else 0
    st = res.agg.stats
    cov = {'states': res.states, 'transitions': res.transitions,
           'traces_validated_against_impl': st.get('cases', 0),
           'evaluations': st.get('cases', 0), 'distinct_nontrivial': st.get('nontrivial', 0),
           'rule': rule, 'samples': res.agg.samples[:8], 'tlc_runs': res.runs,
           'facet_counts': {k[6:]: v for k, v in st.items() if k.startswith('facet:')},
           'facets_judged': sorted(facets), 'hash_seeds': list(seeds),
           'outcomes': {k[8:]: v for k, v in st.items() if k.startswith('outcome:')},
           'oracle_calibrated_cases': st.get('calibrated', 0), 'codepoints_swept': swept,
           'layer_I_drift': {'text_compared': st.get('drift:text-compared', 0), 'text_differs': st.get('drift:text-differs', 0),
                             'type_compared': st.get('drift:type-compared', 0), 'type_differs': st.get('drift:type-differs', 0),
                             'infer_compared': st.get('drift:infer-compared', 0), 'infer_differs': st.get('drift:infer-differs', 0),
                             'infer_differs_on_equal_text': st.get('drift:infer-differs-on-equal-text', 0),
                             'note': 'informational: Emit(v)/TypeOf(v) of spec/PregexImpl.tla against str(p)/_get_type(), and Infer(Emit(v)) of spec/ImplInfer.tla against _get_type()/_is_repeatable(); never a verdict'},
           'exhaustive': True}
    return report(prop, tier, seed, res.agg.failures, cov, time.time() - t0, ASSUME + list(extra_assume),
                  res.model_violations)


HEAP_STAGE = {
    'C01': ('operands-with-a-history', {'dollar', 'ab', 'a'}, {'concat', 'add', 'either', 'optional', 'exactly', 'compile'}),
    'C02': ('operands-with-a-history', {'ab', 'alt', 'altdup'}, {'group_ci', 'group', 'optional', 'mul', 'add', 'either', 'match_at_line_start'}),
    'C03': ('operands-with-a-history', {'a', 'anchor'}, {'capture_n', 'capture_m', 'group', 'add', 'one_or_more', 'refused'}),
    'C04': ('operands-with-a-history', {'ab', 'alt', 'a'}, {'optional', 'one_or_more', 'exactly', 'mul', 'at_most', 'refused'}),
    'C05': ('operands-with-a-history', {'empty', 'a', 'anchor'}, {'concat', 'add', 'either', 'enclose', 'optional', 'exactly', 'capture', 'followed_by'}),
    'C06': ('operands-with-a-history', {'aei', 'between', 'a'}, {'invert', 'or', 'concat', 'optional', 'compile'}),
    'C07': ('operands-with-a-history', {'aei', 'ce', 'from', 'between'}, {'or', 'sub', 'invert', 'refused'}),
    'C08': ('operands-with-a-history', {'grp_ci', 'ab', 'alt'}, {'group', 'group_ci', 'capture', 'capture_n', 'add', 'match'}),
    'C09': ('operands-with-a-history', {'bos', 'anchor', 'a'}, {'one_or_more', 'exactly', 'mul', 'at_most', 'optional', 'refused', 'add'}),
    'C10': ('operands-with-a-history', {'a', 'ab', 'alt'}, {'not_preceded_by', 'followed_by', 'optional', 'one_or_more', 'refused'}),
}


def heap_stage(prop, tier, seeds, res, n_quick=4):
    """Operands that have a history: the same objects re-used after other calls were made on them (PregexHeap),
    restricted to the operators the property talks about; every history is replayed and every live object re-observed."""
    from .checks_heap import heap_config
    name, leaves, ops = HEAP_STAGE[prop]
    n = n_quick if tier == 'quick' else n_quick + 1
    run_generated([heap_config(name + '-len%d' % n, leaves, ops, n, n)], 'harness.judge_heap.judge', {'prop': prop},
                  seeds=list(seeds)[:2], mode='all', batch=50, result=res)


RULE = 'every distinct state of the builder state machine (one surface term with its intended outcome) is replayed ' \
       'against /repo in every spelling of its top operator; '


def codepoint_sweep(tier, res):
    """Every code point (all 1 114 112 of them, in both tiers) as a one-character literal."""
    from .farm import Farm
    farm = Farm('harness.judge_sweep.judge', {}, seeds=(0,), mode='rr')
    chunks = [(lo, min(lo + 4096, 0x3000), 1) for lo in range(0, 0x3000, 4096)]
    step = 1
    chunks += [(lo, min(lo + 16384 * step, 0x110000), step) for lo in range(0x3000, 0x110000, 16384 * step)]
    for c in chunks:
        farm.submit([c])
    n = 0
    for _, r in farm.close():
        res.agg.add(r)
        n += r['stats'].get('cases', 0)
    return n


def check_C01(tier=None):
    return generic('C01', {'behaviour', 'compile', 'crash', 'exc', 'accepted', 'export'},
                   RULE + 'terms place a str argument in every position of every operator that accepts str; non-trivial = '
                   'the step used a str argument', literal_configs, tier)


def check_C02(tier=None):
    return generic('C02', {'behaviour', 'compile', 'crash'},
                   RULE + 'non-trivial = accepted value with >= 2 operator nodes and a precedence-sensitive parent/child pair',
                   compose_configs, tier)


def hash_seeds(tier, seed):
    return [0, 1, 2, seed % (2 ** 32)] if tier == 'quick' else list(range(16))


def check_C03b(tier=None):
    return generic('C03', {'crash', 'compile', 'export'},
                   RULE + 'argument space includes the documented ways of being invalid; non-trivial = any builder call',
                   total_configs, tier, seeds=lambda t, s: sorted(set(hash_seeds(t, s)))[:4] if t == 'quick' else [0, 1, 2, 3, 4, 5, 6, 7],
                   mode='rr')


def check_C04(tier=None):
    return generic('C04', {'behaviour', 'compile', 'crash', 'exc', 'accepted'},
                   RULE + 'operands x bound pairs (valid, None, negative, bool, float, str) x greediness x class/method/operator '
                   'spellings; non-trivial = a quantifier call', quant_configs, tier)


def check_C05(tier=None):
    return generic('C05', {'behaviour', 'compile', 'crash', 'exc', 'accepted', 'emptytext'},
                   RULE + 'pool operands are the empty forms; non-trivial = a step with an empty operand or an empty result',
                   empty_configs, tier)


def check_C08(tier=None):
    return generic('C08', {'caps', 'behaviour', 'compile', 'crash'},
                   RULE + 'nestings of Capture/Group around literals that look like group syntax, lookarounds, conditionals, '
                   'back-references; non-trivial = value with a capture and >= 2 operator nodes', group_configs, tier)


def check_C09(tier=None):
    return generic('C09', {'exc', 'accepted', 'crash'},
                   RULE + 'quantifiers over every literal string of the catalogue and over every assertion constructor; '
                   'only CannotBeRepeatedException outcomes are judged; non-trivial = a quantifier call',
                   repeat_configs, tier, params={'only_ex': 'CannotBeRepeatedException'})


def check_C10(tier=None):
    return generic('C10', {'exc', 'accepted', 'compile', 'crash'},
                   RULE + 'lookbehind constructors over assertion patterns of every width shape; only '
                   'NonFixedWidthPatternException outcomes and compilability are judged; non-trivial = a lookbehind call',
                   width_configs, tier, params={'only_ex': 'NonFixedWidthPatternException'})


CHECKS = {'C01': check_C01, 'C02': check_C02, 'C04': check_C04, 'C05': check_C05,
          'C08': check_C08, 'C09': check_C09, 'C10': check_C10}
