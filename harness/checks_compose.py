"""C01-C05, C08-C10: properties decided on the builder state machine (PregexSpine)."""
import time

from . import universe as UV
from .runner import run_generated, report, tier_and_seed

ALL_OPS = {'concat', 'either', 'enclose', 'quant', 'group', 'anchor', 'look'}
QUANTS_SMALL = {('Optional', 0, 1, True), ('Optional', 0, 1, False), ('Indefinite', 0, -1, True),
                ('OneOrMore', 1, -1, False), ('Exactly', 2, 2, True), ('AtLeastAtMost', 1, 2, True),
                ('AtLeast', 2, -1, False), ('AtMost', 0, 2, True), ('Mul', 3, 3, True)}
SPINE_INVARIANTS = ['OkIsWF', 'OutcomeTotal', 'RepeatRule', 'LookbehindRule']

ASSUME = ['CPython re executes both the emitted pattern and the reference text (engine quirks cancel)',
          'text universes are bounded: all texts over the characters of the expression plus decoys up to length 3, '
          'and over the expression characters alone up to length 4-5',
          'expression shapes are bounded: spine trees of the stated depth over the stated pool',
          'TLA+ value parser (harness/tlaval.py) and surface-term interpreter (harness/build.py) are trusted']


def spine_cfg(invariants=SPINE_INVARIANTS, props=('EmptyNeutralStep',)):
    return 'SPECIFICATION Spec\n' + ''.join('INVARIANT %s\n' % i for i in invariants) + \
        ''.join('PROPERTY %s\n' % p for p in props) + 'CHECK_DEADLOCK FALSE\n'


def spine_config(name, wins, maxd, opsel, poolsel, quants=QUANTS_SMALL, names=('n',), workers=8, timeout=3000):
    return dict(name=name, module='PregexSpine', cfg=spine_cfg(), workers=workers, timeout=timeout,
                invariants=SPINE_INVARIANTS + ['EmptyNeutralStep'],
                defs={'Wins': set(tuple(w) for w in wins), 'MaxD': maxd, 'OpSel': set(opsel),
                      'PoolSel': set(poolsel), 'Quants': set(quants), 'Names': set(names)})


FULL_POOL = {'empty', 'class', 'token', 'wb', 'alt', 'cat', 'quant', 'group', 'assert', 'pregex'}


def compose_configs(tier, seed):
    wins = UV.windows(tier, seed)
    if tier == 'quick':
        return [spine_config('depth1-fullpool', wins[:3], 1, ALL_OPS, FULL_POOL | {'focusall'}),
                spine_config('depth2-leaves', wins[:1], 2, ALL_OPS - {'enclose'}, set(), quants={('Optional', 0, 1, True), ('OneOrMore', 1, -1, False)}, names=())]
    return [spine_config('depth1-fullpool', wins, 1, ALL_OPS, FULL_POOL | {'focusall', 'lit3'}),
            spine_config('depth2-fullpool', wins[:4], 2, ALL_OPS, FULL_POOL),
            spine_config('depth3-leaves', wins[:2], 3, ALL_OPS, {'class'}, quants={('Optional', 0, 1, True), ('OneOrMore', 1, -1, False)})]


def generic(prop, facets, rule, configs_fn, args_tier=None, seeds=(0,), mode='rr', extra_assume=()):
    tier, seed = tier_and_seed(args_tier)
    t0 = time.time()
    res = run_generated(configs_fn(tier, seed), 'harness.judge_compose.judge',
                        {'prop': prop, 'facets': sorted(facets)}, seeds=seeds, mode=mode)
    st = res.agg.stats
    cov = {'states': res.states, 'transitions': res.transitions,
           'traces_validated_against_impl': st.get('cases', 0),
           'evaluations': st.get('cases', 0), 'distinct_nontrivial': st.get('nontrivial', 0),
           'rule': rule, 'samples': res.agg.samples[:8], 'tlc_runs': res.runs,
           'facet_counts': {k[6:]: v for k, v in st.items() if k.startswith('facet:')},
           'facets_judged': sorted(facets), 'hash_seeds': list(seeds),
           'outcomes': {k[8:]: v for k, v in st.items() if k.startswith('outcome:')},
           'exhaustive': True}
    return report(prop, tier, seed, res.agg.failures, cov, time.time() - t0, ASSUME + list(extra_assume),
                  res.model_violations)


def check_C02(tier=None):
    return generic('C02', {'behaviour', 'compile', 'crash'},
                   'every distinct state of the spine machine (one surface term) replayed in every spelling of its top '
                   'operator; non-trivial = accepted value with >= 2 operator nodes and a precedence-sensitive parent/child pair',
                   compose_configs, tier)


CHECKS = {'C02': check_C02}
