"""Judge the argument space of the meta constructors (PregexMetaArgs): documented exception or a compilable pattern."""
import collections
import re

from .tlaval import parse_state
from . import build as B
from . import observe as O
import pregex.meta.essentials as me

INT_FAMILY = ('Integer', 'PositiveInteger', 'NegativeInteger', 'UnsignedInteger')
DEC_FAMILY = ('Decimal', 'PositiveDecimal', 'NegativeDecimal', 'UnsignedDecimal')


def val(a):
    t = a[0]
    if t == 'i':
        return a[1]
    if t in ('fmt', 'fmtupper', 'strarg'):
        return a[1]
    if t in ('fmts', 'list'):
        return list(a[1])
    return {'none': None, 'float': 1.5, 'float1': 1.0, 'str': '1', 'bool': True, 'badlist': ['dd/mm/yyyy', 5]}[t]


def do_call(ctor, args):
    vs = [val(a) for a in args]
    if ctor in INT_FAMILY:
        return getattr(me, ctor)(vs[0], vs[1])
    if ctor in DEC_FAMILY:
        return getattr(me, ctor)(0, 9, vs[0], vs[1])
    if ctor == 'Numeral':
        return me.Numeral(vs[0], vs[1], vs[2])
    if ctor == 'Word':
        return me.Word(vs[0], vs[1])
    if ctor == 'Date':
        return me.Date(vs[0])
    v = vs[0]
    if args[0][0] == 'badlist':
        v = ['a', 5]
    return getattr(me, ctor)(v)


def render(ctor, args):
    return '%s(%s)' % (ctor, ', '.join(repr(val(a)) for a in args))


def observe(ctor, args, out):
    fails = []
    try:
        p = do_call(ctor, args)
    except B.PREGEX_EXCEPTIONS as e:
        nm = type(e).__name__
        if nm not in out['ex']:
            fails.append(('exc', {'observed': nm, 'expected_ok': out['ok'], 'expected_ex': sorted(out['ex'])}))
        return fails
    except Exception as e:  # noqa
        fails.append(('crash', {'observed': type(e).__name__, 'message': str(e)[:200]}))
        return fails
    if not out['ok']:
        fails.append(('accepted', {'observed': 'ok', 'emitted': str(p)[:200], 'expected_ex': sorted(out['ex'])}))
        return fails
    try:
        rc = re.compile(str(p), O.FLAGS)
        gp = p.get_pattern()
        if not gp.isprintable():
            fails.append(('export', {'exported': gp[:200]}))
        else:
            re.compile(gp, O.FLAGS)
    except re.error as e:
        fails.append(('compile', {'emitted': str(p)[:200], 'error': str(e)}))
    return fails


def judge(payload, params):
    prop = params['prop']
    facets = set(params['facets'])
    only = params.get('ctors')
    stats = collections.Counter()
    failures, samples = [], []
    for raw in payload:
        call = parse_state(raw)['call']
        if only and call['ctor'] not in only:
            continue
        out = {'ok': call['out']['ok'], 'ex': set(call['out']['ex'])}
        stats['states'] += 1
        stats['cases'] += 1
        stats['nontrivial'] += 1
        for facet, detail in observe(call['ctor'], call['args'], out):
            stats['facet:' + facet] += 1
            if facet in facets:
                failures.append({'property': prop, 'kind': 'metaargs', 'replay_module': 'judge_metaargs', 'facet': facet,
                                 'term': render(call['ctor'], call['args']), 'ctor': call['ctor'], 'args': call['args'], 'spelling': 'class',
                                 'detail': detail, 'expected': {'ok': out['ok'], 'ex': sorted(out['ex'])}})
        if len(samples) < 2:
            samples.append({'call': render(call['ctor'], call['args']), 'expected': {'ok': out['ok'], 'ex': sorted(out['ex'])}})
    return {'stats': dict(stats), 'failures': failures[:200], 'samples': samples}


def _t(x):
    return tuple(_t(e) for e in x) if isinstance(x, list) else x


def replay_record(rec):
    out = {'ok': rec['expected']['ok'], 'ex': set(rec['expected']['ex'])}
    fails = observe(rec['ctor'], _t(rec['args']), out)
    print('call:', rec['term'], 'expected:', rec['expected'])
    for f in fails:
        print('failure:', f)
    still = [f for f in fails if f[0] == rec['facet']]
    print('REPRODUCED' if still else 'not reproduced on the current tree')
    return 1 if still else 0
