"""Regenerate /verif/MANIFEST.json from the table below (python -m harness.manifest)."""
import json
import os

VERIF = os.path.dirname(os.path.dirname(os.path.abspath(__file__)))

TB = 'CPython re (the engine that executes both the emitted and the reference pattern), TLC, the TLA+ value parser and ' \
     'the surface-term interpreter of the harness; bounded universes as stated in the evidence file'

CHECKS = {
    'C01': ('6 C01', 'TLC enumerates every (string, argument position) state of the builder state machine with the intended '
            'literal meaning; each state is replayed into /repo in every spelling and compared behaviourally with the '
            'hex-escaped reference text',
            'explicit TLA+ spec (PregexSpine) model-checked with TLC; spec-generated cases replayed into the implementation'),
    'C02': ('6 C02', 'TLC enumerates spine expression trees over all pre.py operators with layer-E values; emitted pattern must '
            'behave like the fully parenthesised reference on every text of the universe, in each spelling',
            'explicit TLA+ spec model-checked with TLC; spec-generated cases replayed into the implementation'),
    'C04': ('6 C04', 'TLC enumerates operands x bound pairs x greediness with the documented rep(a,n,m,g) meaning and the '
            'documented exceptions; replayed in class/method/operator spellings',
            'explicit TLA+ spec model-checked with TLC; spec-generated cases replayed into the implementation'),
    'C05': ('6 C05', 'TLC checks the neutrality laws of the empty pattern as action properties of layer E and enumerates every '
            'empty form in every operand position; replay compares with the reference of the stripped expression',
            'explicit TLA+ spec model-checked with TLC (action properties EmptyNeutralStep, EmptyNegRaises); replay'),
    'C08': ('6 C08', 'TLC enumerates Capture/Group nestings with CapList as the intended group structure; replay compares '
            're.groups/groupindex and captured spans',
            'explicit TLA+ spec model-checked with TLC; spec-generated cases replayed into the implementation'),
    'C09': ('6 C09', 'TLC checks RepeatRule on layer E and enumerates quantifiers over all catalogue literals and all assertion '
            'constructors; replay judges the CannotBeRepeatedException outcome',
            'explicit TLA+ spec model-checked with TLC (invariant RepeatRule); replay'),
    'C10': ('6 C10', 'TLC computes structural width ranges, checks LookbehindRule and enumerates lookbehind constructors over '
            'assertion patterns of every width shape; replay judges NonFixedWidthPatternException and compilability',
            'explicit TLA+ spec model-checked with TLC (invariant LookbehindRule); replay'),
}

NOT_YET = {
    'C03': 'check under construction in this session (builder part exists, class algebra and meta parts pending)',
    'C06': 'check under construction', 'C07': 'check under construction', 'C11': 'check under construction',
    'C12': 'check under construction', 'C13': 'check under construction', 'C14': 'check under construction',
    'C15': 'check under construction', 'C16': 'check under construction', 'C17': 'check under construction',
    'C18': 'check under construction', 'C19': 'check under construction', 'C20': 'check under construction',
}


def main():
    m = {
        'version': 1,
        'setup_cmd': './vf setup',
        'hooks': {
            'guard': 'PREGEX_VERIF_TRACE',
            'enable': 'no source hooks: the API is observed from outside (harness wrappers); PREGEX_VERIF_TRACE=1 '
                      'enables the external tracer used for trace validation',
            'baseline_off_cmd': 'cd /repo && /venv/bin/python -m pytest -ra -q -p no:cacheprovider --timeout=900 '
                                '--continue-on-collection-errors',
            'source_commits': [],
            'add_only': True,
        },
        'engines': [{'name': 'tlc', 'path': '/opt/veriftools/tla/tla2tools.jar', 'serves_properties': sorted(CHECKS),
                     'kind_free_text': 'TLC 1.8 explicit-state model checker; specs in /verif/spec'}],
        'checks': [],
        'not_applicable': [{'property_id': k, 'reason': v} for k, v in sorted(NOT_YET.items()) if k not in CHECKS],
        'notes': 'Every check is ./vf check <ID> --tier quick|thorough; exit 0 held, 1 VIOLATION, 2 machinery failure.',
    }
    for pid in sorted(CHECKS):
        ref, text, tech = CHECKS[pid]
        m['checks'].append({
            'property_id': pid,
            'quick_cmd': './vf check %s --tier quick' % pid,
            'thorough_cmd': './vf check %s --tier thorough' % pid,
            'evidence_file': 'evidence/%s.json' % pid,
            'replay_cmd_template': './vf replay {path}',
            'engine': 'tlc',
            'level_claimed': {'category': 'model_checking', 'text': text, 'design_ref': 'DESIGN.md section ' + ref},
            'level_note': TB,
            'technique': tech,
        })
    with open(os.path.join(VERIF, 'MANIFEST.json'), 'w') as fh:
        json.dump(m, fh, indent=1)
    print('MANIFEST.json written: %d checks, %d not_applicable' % (len(m['checks']), len(m['not_applicable'])))


if __name__ == '__main__':
    main()
