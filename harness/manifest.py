"""Regenerate /verif/MANIFEST.json from the table below (python -m harness.manifest)."""
import json
import os

VERIF = os.path.dirname(os.path.dirname(os.path.abspath(__file__)))

TB = 'CPython re (the engine that executes both the emitted and the reference pattern), TLC, the TLA+ value parser and ' \
     'the surface-term interpreter of the harness; bounded universes as stated in the evidence file'

CHECKS = {
    'C01': ('6 C01', 'TLC enumerates every (string, argument position) state of the builder state machine with the intended '
            'literal meaning; each state is replayed into /repo in every spelling and compared behaviourally with the '
            'hex-escaped reference text',
            'explicit TLA+ spec (PregexSpine) model-checked with TLC; spec-generated cases replayed into the implementation'),
    'C02': ('6 C02', 'TLC enumerates spine expression trees over all pre.py operators with layer-E values; emitted pattern must '
            'behave like the fully parenthesised reference on every text of the universe, in each spelling',
            'explicit TLA+ spec model-checked with TLC; spec-generated cases replayed into the implementation'),
    'C04': ('6 C04', 'TLC enumerates operands x bound pairs x greediness with the documented rep(a,n,m,g) meaning and the '
            'documented exceptions; replayed in class/method/operator spellings',
            'explicit TLA+ spec model-checked with TLC; spec-generated cases replayed into the implementation'),
    'C05': ('6 C05', 'TLC checks the neutrality laws of the empty pattern as action properties of layer E and enumerates every '
            'empty form in every operand position; replay compares with the reference of the stripped expression',
            'explicit TLA+ spec model-checked with TLC (action properties EmptyNeutralStep, EmptyNegRaises); replay'),
    'C08': ('6 C08', 'TLC enumerates Capture/Group nestings with CapList as the intended group structure; replay compares '
            're.groups/groupindex and captured spans',
            'explicit TLA+ spec model-checked with TLC; spec-generated cases replayed into the implementation'),
    'C09': ('6 C09', 'TLC checks RepeatRule on layer E and enumerates quantifiers over all catalogue literals and all assertion '
            'constructors; replay judges the CannotBeRepeatedException outcome',
            'explicit TLA+ spec model-checked with TLC (invariant RepeatRule); replay'),
    'C10': ('6 C10', 'TLC computes structural width ranges, checks LookbehindRule and enumerates lookbehind constructors over '
            'assertion patterns of every width shape; replay judges NonFixedWidthPatternException and compilability',
            'explicit TLA+ spec model-checked with TLC (invariant LookbehindRule); replay'),
}

CHECKS.update({
    'C03': ('6 C03', 'TLC enumerates the documented argument space of every builder, of the class constructors/algebra and of the meta '
            'constructors (valid values and each documented way of being invalid) with the intended outcome; replay under several '
            'hash seeds judges only: library exception or a pattern that compiles and whose export is printable and equivalent',
            'explicit TLA+ specs (PregexSpine, PregexClass, PregexMeta) model-checked with TLC; spec-generated cases replayed'),
    'C06': ('6 C06', 'TLC enumerates constructor calls with the documented sets as CharSet values; replay decides membership of every '
            'code point 0..0x10FFFF per distinct emitted class text under several hash seeds',
            'explicit TLA+ spec (CharSet, PregexClass) model-checked with TLC; full-range membership replay'),
    'C07': ('6 C07', 'TLC checks the interval algebra pointwise (action property Pointwise, DoubleNeg) and enumerates class terms over '
            'windows of adjacent code points; replay decides membership over the full code-point range under several hash seeds',
            'explicit TLA+ spec model-checked with TLC (Pointwise, DoubleNeg, IvNormal); full-range membership replay'),
    'C11': ('6 C11', 'TLC enumerates cache/observer histories (PregexCache, CacheProtocol), checks the slice laws on abstract match lists '
            '(MC_Api) and validates every recorded observer event against PregexApi (TraceApi)',
            'explicit TLA+ specs model-checked with TLC; generated histories replayed, recorded traces validated by TLC'),
    'C12': ('6 C12', 'as C11 for the capture-extraction methods: SliceIdentity, OnePerMatch, IncludeEmptyFilter on abstract match lists, '
            'recorded capture events validated by TLC against PregexApi',
            'explicit TLA+ specs model-checked with TLC; generated histories replayed, recorded traces validated by TLC'),
    'C13': ('6 C13', 'as C11 for split_by_match / split_by_capture / replace: SplitReconstruct, ReplaceFirstK, ReplaceAllEqualsJoin on '
            'abstract match lists, recorded events validated by TLC',
            'explicit TLA+ specs model-checked with TLC; generated histories replayed, recorded traces validated by TLC'),
    'C14': ('6 C14', 'as C11 with real UTF-8 files whose path string itself contains matches, and context windows incl. invalid sizes; '
            'recorded events validated by TLC against PregexApi on the file content',
            'explicit TLA+ specs model-checked with TLC; generated histories replayed, recorded traces validated by TLC'),
    'C20': ('6 C20', 'TLC enumerates heap histories with sharing, aliasing and interleaved compile/matching (HeapImmutable, '
            'AliasSameValue); replay re-observes every live object after every call under several hash seeds and compares every '
            'object with the reference text of its value',
            'explicit TLA+ spec (PregexHeap) model-checked with TLC; spec-generated histories replayed into the implementation'),
})

for _p, _t in (('C15', 'Integer family: canonical numerals in range, sign rules, maximal digit runs'),
               ('C16', 'Decimal family: integer part by the Integer language, dot, fraction length'),
               ('C17', 'Numeral / Word / WordContains / WordStartsWith / WordEndsWith: alphabet, length, affix predicates on maximal word runs'),
               ('C19', 'Date: the documented field table per format, every day/month value, year lengths, separators')):
    CHECKS[_p] = ('6 ' + _p, 'TLC builds every subject text over the constructor alphabet for every parameter record and computes the promised '
                  'language of spec/PregexMeta.tla (' + _t + '), checking its self-consistency invariants; each state is replayed with '
                  'is_exact_match / get_matches_and_pos',
                  'explicit TLA+ spec (PregexMeta) model-checked with TLC; spec-generated cases replayed into the implementation')
CHECKS['C18'] = ('6 C18', 'language equality of the emitted extensible IPv4/IPv6 patterns with the reference automata (IPRef) for ALL strings by '
                 'TLC exploration of the product with the NFA extracted from the emitted pattern; reference automata proved equal to the '
                 'declarative RFC predicates on all short strings (MC_IPRef); exact-match and embedded contexts via PregexMeta',
                 'explicit TLA+ specs model-checked with TLC: product automaton exploration (MC_IPProduct), DFA = predicate (MC_IPRef), '
                 'PregexMeta enumeration replayed into the implementation')

NOT_YET = {
    'C03': 'check under construction in this session (builder part exists, class algebra and meta parts pending)',
    'C06': 'check under construction', 'C07': 'check under construction', 'C11': 'check under construction',
    'C12': 'check under construction', 'C13': 'check under construction', 'C14': 'check under construction',
    'C15': 'check under construction', 'C16': 'check under construction', 'C17': 'check under construction',
    'C18': 'check under construction', 'C19': 'check under construction', 'C20': 'check under construction',
}


def main():
    m = {
        'version': 1,
        'setup_cmd': './vf setup',
        'hooks': {
            'guard': 'PREGEX_VERIF_TRACE',
            'enable': 'no source hooks in /repo: PREGEX_VERIF_TRACE=1 enables the external tracer /verif/harness/tracer.py (a pytest '
                      'plugin, -p harness.tracer) that wraps the public constructors, chained methods and operator dunders from '
                      'outside and records builder events; the C02/C03 checks run the repository test suite under it',
            'baseline_off_cmd': 'cd /repo && /venv/bin/python -m pytest -ra -q -p no:cacheprovider --timeout=900 '
                                '--continue-on-collection-errors',
            'source_commits': [],
            'add_only': True,
        },
        'engines': [{'name': 'tlc', 'path': '/opt/veriftools/tla/tla2tools.jar', 'serves_properties': sorted(CHECKS),
                     'kind_free_text': 'TLC 1.8 explicit-state model checker; specs in /verif/spec'}],
        'checks': [],
        'not_applicable': [{'property_id': k, 'reason': v} for k, v in sorted(NOT_YET.items()) if k not in CHECKS],
        'notes': 'Every check is ./vf check <ID> --tier quick|thorough; exit 0 held, 1 VIOLATION, 2 machinery failure.',
    }
    for pid in sorted(CHECKS):
        ref, text, tech = CHECKS[pid]
        if pid in ('C01', 'C02', 'C03', 'C04', 'C05', 'C08', 'C09', 'C10'):
            tech += '; whole programs (curated, seeded random, wide ones with reference-guided texts, the test suite\'s recorded builder ' \
                    'trace for C02/C03) evaluated by TLC (PregexTerms) and histories of PregexHeap replayed the same way; layer-I ' \
                    'theorems (PregexImpl PrecSafe, ImplInfer) checked by TLC on every state'
        if pid in ('C06', 'C07'):
            tech += '; class programs evaluated by TLC (PregexClassTerms), PregexHeap histories on shared class objects; model stages ' \
                    'ImplClassText (C06: write/read round trip of class text) and ImplClassAlg (C07: interval loops under every order, ' \
                    'with termination as a liveness property)'
        m['checks'].append({
            'property_id': pid,
            'quick_cmd': './vf check %s --tier quick' % pid,
            'thorough_cmd': './vf check %s --tier thorough' % pid,
            'evidence_file': 'evidence/%s.json' % pid,
            'replay_cmd_template': './vf replay {path}',
            'engine': 'tlc',
            'level_claimed': {'category': 'model_checking', 'text': text, 'design_ref': 'DESIGN.md section ' + ref},
            'level_note': TB,
            'technique': tech,
        })
    with open(os.path.join(VERIF, 'MANIFEST.json'), 'w') as fh:
        json.dump(m, fh, indent=1)
    print('MANIFEST.json written: %d checks, %d not_applicable' % (len(m['checks']), len(m['not_applicable'])))


if __name__ == '__main__':
    main()
