"""Generic driver for checks of the form: TLC enumerates the states of a specification
instance (checking the model-level invariants on the way), every distinct state is
streamed to the replay farm, the farm executes it against /repo and judges it."""
import json
import os
import sys
import time
import zlib

from . import evidence as EV
from . import findings as KF
from .farm import Farm, Agg, split_states
from .tlc import run_tlc, runcfg_module, MachineryError


def tier_and_seed(args_tier=None):
    tier = args_tier or os.environ.get('VERIF_TIER') or 'quick'
    seed = int(os.environ.get('VERIF_SEED', '0') or 0)
    return tier, seed


class GenResult:
    def __init__(self):
        self.agg = Agg()
        self.states = 0
        self.transitions = 0
        self.runs = []
        self.model_violations = []


def run_generated(configs, judge, params, seeds=(0,), mode='rr', batch=100, result=None):
    """configs: list of dict(name, module, cfg, defs, workers, timeout)."""
    res = result or GenResult()
    for c in configs:
        if c.get('model_only'):
            t0 = time.time()
            r = run_tlc(c['module'], c['cfg'], runcfg_module(c['defs'], extends=['Integers']), workers=c.get('workers', 8),
                        timeout=c.get('timeout', 3600))
            res.states += r['distinct']
            res.transitions += max(r['generated'], 1)
            res.runs.append({'name': c['name'], 'module': c['module'], 'distinct': r['distinct'], 'generated': r['generated'],
                             'tlc_wall_s': round(r['wall_s'], 1), 'invariants': c.get('invariants', []), 'model_only': True})
            if r['violated']:
                res.model_violations.append((c['name'], r['violated'], r['out'][-3000:]))
            continue
        farm = Farm(judge, dict(params, **c.get('params', {})), seeds=seeds, mode=mode)

        k = int(c.get('sample', 1))

        def consumer(fh, farm=farm, k=k):
            # sample = k: TLC explores (and checks the model-level theorems on) every state; a deterministic
            # 1-in-k selection of the states (by a hash of the state text) is replayed against the code
            for b in split_states(fh, batch * k):
                if k > 1:
                    b = [raw for raw in b if zlib.crc32(raw.encode('utf-8', 'surrogateescape')) % k == 0]
                if b:
                    farm.submit(b)
        t0 = time.time()
        try:
            r = run_tlc(c['module'], c['cfg'], runcfg_module(c['defs'], extends=['Integers']),
                        workers=c.get('workers', 8), consumer=consumer, timeout=c.get('timeout', 3600),
                        extra_files=c.get('extra_files'))
        finally:
            out = farm.close()
        for _, rr in out:
            res.agg.add(rr)
        res.states += r['distinct']
        res.transitions += r['generated']
        res.runs.append({'name': c['name'], 'module': c['module'], 'distinct': r['distinct'],
                         'generated': r['generated'], 'tlc_wall_s': round(r['wall_s'], 1),
                         'wall_s': round(time.time() - t0, 1), 'invariants': c.get('invariants', []),
                         'replayed': 'every state' if k == 1 else 'a deterministic 1-in-%d selection of the states' % k})
        if r['violated']:
            res.model_violations.append((c['name'], r['violated'], r['out'][-3000:]))
    return res


def report(prop, tier, seed, failures, coverage, wall_s, assumptions, model_violations=()):
    """Print KNOWN-FINDING / VIOLATION lines, write evidence and replay files, return exit code."""
    EV.clear_replays(prop)
    if model_violations:
        for name, inv, out in model_violations:
            print('MACHINERY: model-level theorem %s violated in %s (specification defect, not a verdict on /repo)' % (inv, name))
            print(out)
        EV.write_evidence(prop, tier, seed, dict(coverage, machinery_failure=True), wall_s, 0, assumptions)
        return 2
    oracle = [f for f in failures if f.get('facet') == 'oracle']
    if oracle:
        for f in oracle[:5]:
            print('ORACLE-MISMATCH: the specification\'s matcher disagrees with re on its own reference text '
                  '(specification defect, not a verdict on /repo): %s %s' % (f.get('term'), json.dumps(EV._plain(f.get('detail')))[:500]))
        EV.write_evidence(prop, tier, seed, dict(coverage, machinery_failure=True), wall_s, 0, assumptions)
        return 2
    entries, listed, unlisted = KF.classify(prop, failures)
    for e in entries:
        hit = listed.get(e['id'], [])
        print('KNOWN-FINDING: property=%s %s [%s; reproduced on %d case(s) in this run]' % (prop, e['title'], e['id'], len(hit)))
    coverage = dict(coverage)
    coverage['known_findings_reproduced'] = {k: len(v) for k, v in listed.items()}
    coverage['unlisted_violations'] = len(unlisted)
    rc = 0
    if unlisted:
        seen = set()
        n = 0
        for rec in unlisted:
            key = (rec.get('facet'), rec.get('term'), rec.get('spelling'))
            if key in seen:
                continue
            seen.add(key)
            n += 1
            if n > 20:
                break
            path = EV.write_replay(prop, n, rec)
            print('VIOLATION property=%s replay=%s' % (prop, path))
            print('  %s [%s, %s] %s' % (rec.get('term'), rec.get('spelling'), rec.get('facet'),
                                       json.dumps(EV._plain(rec.get('detail')), ensure_ascii=True)[:400]))
        rc = 1
    EV.write_evidence(prop, tier, seed, coverage, wall_s, len(unlisted), assumptions)
    print('%s %s: %s states, %s cases, %d unlisted violation(s), %d listed, %.1fs' % (
        prop, tier, coverage.get('states'), coverage.get('traces_validated_against_impl'),
        len(unlisted), sum(len(v) for v in listed.values()), wall_s))
    return rc
